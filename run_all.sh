#!/bin/sh
# run every claimed check (tier $1, default quick), sequentially; summary at the end
cd "$(dirname "$0")"
tier=${1:-quick}
mkdir -p build
rc=0
for id in $(/venv/bin/python -c "import json;print(' '.join(c['property_id'] for c in json.load(open('MANIFEST.json'))['checks']))"); do
  ./check $id $tier > build/run_$id.log 2>&1
  r=$?
  echo "$id rc=$r $(grep -c '^VIOLATION' build/run_$id.log) violations $(grep -c '^KNOWN-FINDING' build/run_$id.log) known; $(tail -1 build/run_$id.log | cut -c1-160)"
  [ $r -ne 0 ] && rc=1
done
exit $rc
