------------------------------- MODULE Target -------------------------------
(***************************************************************************)
(* Where a connection goes (C18, C19): URL -> (host, port, resource, TLS), *)
(* the address-list dial loop, the proxy decision with no_proxy            *)
(* exemptions, and the CONNECT tunnel request.                             *)
(***************************************************************************)
EXTENDS Naturals, Sequences, FiniteSets, TLC

ToSet(s) == {s[i] : i \in 1..Len(s)}

(***************************************************************************)
(* C18 - URLs.  c: [scheme, sep, userinfo, host (record [kind, text,       *)
(* plain]), port (0 = absent), path, query]                                *)
(***************************************************************************)
Schemes  == {"ws", "wss", "http", "ftp", ""}
Seps     == {"://", ":", ":/", ""}
UserInfo == {"", "u:p@"}
HostForms == {[kind |-> "name", text |-> "server.test", plain |-> "server.test"],
              [kind |-> "upper", text |-> "SERVER.Test", plain |-> "server.test"],
              [kind |-> "v4", text |-> "192.0.2.7", plain |-> "192.0.2.7"],
              [kind |-> "v6", text |-> "[2001:db8::1]", plain |-> "2001:db8::1"],
              [kind |-> "empty", text |-> "", plain |-> ""]}
Ports    == {0, 1, 80, 443, 8080, 65535}
Paths    == {"", "/", "/a/b", "/chat;v=1", "/a;b/c;d", "/p;", "/a;b/c;"}       \* (";" is an ordinary path character: nothing of the path is dropped)
Queries  == {"", "q=1", "q=a+b&r=(1)*'$!,;:@[x]"}       \* (every character the query grammar allows goes out as it is)
\* (":/" followed by an empty host and a path renders as "://" + path: that text is a different,
\* well-formed URL, so the combination is left out of the component space)
UrlComponents == {c \in [scheme : Schemes, sep : Seps, userinfo : UserInfo, host : HostForms, port : Ports,
                         path : Paths, query : Queries] :
                    ~(c.sep = ":/" /\ c.host.kind = "empty" /\ c.userinfo = "" /\ c.port = 0 /\ c.path # "")}

Render(c) == c.scheme \o c.sep \o c.userinfo \o c.host.text
             \o (IF c.port = 0 THEN "" ELSE ":" \o ToString(c.port))
             \o c.path \o (IF c.query = "" THEN "" ELSE "?" \o c.query)

WellFormedUrl(c) == c.scheme \in {"ws", "wss"} /\ c.sep = "://" /\ c.host.kind # "empty"

ExpectedTarget(c) ==
  IF ~WellFormedUrl(c) THEN [valid |-> FALSE, host |-> "", port |-> 0, resource |-> "", secure |-> FALSE]
  ELSE [valid |-> TRUE,
        host |-> c.host.plain,          \* IPv6 without brackets; compared case-insensitively
        port |-> IF c.port # 0 THEN c.port ELSE IF c.scheme = "wss" THEN 443 ELSE 80,
        resource |-> (IF c.path = "" THEN "/" ELSE c.path) \o (IF c.query = "" THEN "" ELSE "?" \o c.query),
        secure |-> c.scheme = "wss"]

(***************************************************************************)
(* C18 - the dial loop.  outcomes: sequence over {"ok","refused",          *)
(* "unreachable","other"}, one per resolved address, in resolver order.    *)
(* Observed: tried = sequence of per-socket records                        *)
(*   [addr, timeoutSet, defaults, user, closed], result = [kind, idx]      *)
(***************************************************************************)
Outcomes == {"ok", "refused", "unreachable", "other"}
Falls(o) == o \in {"refused", "unreachable"}     \* the next address is tried
\* index of the attempt at which the loop stops
StopIndex(os) ==
  IF \E i \in 1..Len(os) : ~Falls(os[i])
  THEN CHOOSE i \in 1..Len(os) : ~Falls(os[i]) /\ \A j \in 1..(i - 1) : Falls(os[j])
  ELSE Len(os)

DialFaults(e) ==
  LET k == StopIndex(e.outcomes) IN
  (IF Len(e.tried) < k THEN {"C18.address_not_tried"} ELSE {})
  \cup (IF Len(e.tried) > k THEN {"C18.tried_beyond_first_success_or_fatal_error"} ELSE {})
  \cup (IF \E i \in 1..Len(e.tried) : e.tried[i].addr # i THEN {"C18.addresses_out_of_order"} ELSE {})
  \cup (IF \E i \in 1..Len(e.tried) : ~e.tried[i].timeoutSet THEN {"C18.timeout_not_applied_to_every_socket"} ELSE {})
  \cup (IF \E i \in 1..Len(e.tried) : ~e.tried[i].defaults THEN {"C18.default_options_not_applied_to_every_socket"} ELSE {})
  \cup (IF \E i \in 1..Len(e.tried) : ~e.tried[i].user THEN {"C18.user_options_not_applied_to_every_socket"} ELSE {})
  \cup (IF \E i \in 1..Len(e.tried) : i <= Len(e.outcomes) /\ e.outcomes[i] # "ok" /\ ~e.tried[i].closed
        THEN {"C18.failed_socket_not_closed"} ELSE {})
  \cup (IF e.outcomes[k] = "ok"
        THEN (IF e.result.kind # "ok" \/ e.result.idx # k THEN {"C18.accepting_address_not_used"} ELSE {})
        ELSE (IF e.result.kind # "raise" THEN {"C18.failure_not_reported"}
              ELSE IF e.result.idx # k THEN {"C18.wrong_error_raised"} ELSE {}))

(***************************************************************************)
(* C19 - exemption.  Hosts and domains are label sequences, so membership  *)
(* "on a label boundary" is IsSuffix by construction.  An entry is         *)
(*   [kind |-> "star"] | [kind |-> "host", labels] | [kind |-> "dot",      *)
(*   labels] | [kind |-> "cidr", net (4 octets), prefix] | [kind |-> "ip"] *)
(***************************************************************************)
IsSuffix(d, h) == Len(d) <= Len(h) /\ SubSeq(h, Len(h) - Len(d) + 1, Len(h)) = d

Pow2(n) == IF n = 0 THEN 1 ELSE IF n = 1 THEN 2 ELSE IF n = 2 THEN 4 ELSE IF n = 3 THEN 8
           ELSE IF n = 4 THEN 16 ELSE IF n = 5 THEN 32 ELSE IF n = 6 THEN 64 ELSE IF n = 7 THEN 128 ELSE 256
\* first p bits of two 4-octet addresses agree
SamePrefix(a, b, p) ==
  LET full == p \div 8
      rest == p % 8 IN
    /\ \A i \in 1..full : a[i] = b[i]
    /\ (rest = 0 \/ full = 4 \/ (a[full + 1] \div Pow2(8 - rest)) = (b[full + 1] \div Pow2(8 - rest)))

\* h: [kind |-> "name", labels] or [kind |-> "ip", octets]
EntryExempts(en, h) ==
  CASE en.kind = "star" -> TRUE
    [] en.kind = "host" -> h.kind = "name" /\ h.labels = en.labels
    [] en.kind = "dot"  -> h.kind = "name" /\ IsSuffix(en.labels, h.labels)
    [] en.kind = "ip"   -> h.kind = "ip" /\ h.octets = en.octets
    [] en.kind = "cidr" -> h.kind = "ip" /\ SamePrefix(h.octets, en.net, en.prefix)
    [] OTHER -> FALSE
Exempt(h, list) == \E i \in 1..Len(list) : EntryExempts(list[i], h)

\* second, differently written definition used to guard the first (TargetMC): string-level view of a
\* dot entry: the host text ends with the domain text and the character before it is a dot (or nothing)
RECURSIVE JoinLabels(_)
JoinLabels(ls) == IF ls = <<>> THEN "" ELSE IF Len(ls) = 1 THEN ls[1] ELSE ls[1] \o "." \o JoinLabels(Tail(ls))
EndsWithAtBoundary(ht, dt) ==
  LET n == Len(ht) m == Len(dt) IN
    m <= n /\ SubSeq(ht, n - m + 1, n) = dt /\ (n = m \/ SubSeq(ht, n - m, n - m) = ".")

(***************************************************************************)
(* C19 - the decision.  cfg: [secure, host, optHost, optPort, noProxyOpt,  *)
(* noProxyEnv (list, already split), env: [lower, upper] for the scheme's  *)
(* variable, each "" or [host, port]]                                      *)
(***************************************************************************)
NoProxyList(cfg) == IF cfg.noProxyOpt # <<>> THEN cfg.noProxyOpt
                    ELSE IF cfg.noProxyEnvLower # <<>> THEN cfg.noProxyEnvLower ELSE cfg.noProxyEnvUpper
Decision(cfg) ==
  IF Exempt(cfg.host, NoProxyList(cfg)) THEN [kind |-> "direct"]
  ELSE IF cfg.optHost # "" THEN
       IF cfg.optPort = 0 THEN [kind |-> "error"] ELSE [kind |-> "proxy", host |-> cfg.optHost, port |-> cfg.optPort]
  ELSE IF cfg.envLower # "" THEN [kind |-> "proxy", host |-> cfg.envLower, port |-> cfg.envLowerPort]
  ELSE IF cfg.envUpper # "" THEN [kind |-> "proxy", host |-> cfg.envUpper, port |-> cfg.envUpperPort]
  ELSE [kind |-> "direct"]

DecisionFaults(e) ==
  LET d == Decision(e.cfg) IN
  IF d.kind # e.got.kind THEN
     {IF d.kind = "direct" THEN "C19.exempt_or_unconfigured_target_proxied"
      ELSE IF e.got.kind = "direct" THEN "C19.configured_proxy_not_used" ELSE "C19.decision_differs"}
  ELSE IF d.kind = "proxy" /\ (d.host # e.got.host \/ d.port # e.got.port) THEN {"C19.wrong_proxy_selected"}
  ELSE {}

(***************************************************************************)
(* C19 - the tunnel.  e: [host, port, auth ("" | "user" | "user:pass"),    *)
(* reply (status or 0 for garbage/EOF), lines (header lines of the CONNECT *)
(* request), line, creds (decoded Basic credentials or ""), proceeded,     *)
(* raisedProxy, closed, wsHost (Host of the WebSocket request), wsSameSock] *)
(***************************************************************************)
TunnelFaults(e) ==
  LET hp == e.host \o ":" \o ToString(e.port) IN
  (IF e.line # "CONNECT " \o hp \o " HTTP/1.1" THEN {"C19.connect_line"} ELSE {})
  \cup (IF e.dialHost # e.proxyHost \/ e.dialPort # e.proxyPort THEN {"C19.proxy_not_dialled"} ELSE {})
  \cup (IF ("Host: " \o hp) \notin ToSet(e.lines) THEN {"C19.connect_host_header"} ELSE {})
  \cup (IF e.creds # e.auth THEN {"C19.proxy_credentials"} ELSE {})
  \cup (IF e.reply = 200
        THEN (IF ~e.proceeded THEN {"C19.tunnel_not_used_after_200"} ELSE {})
             \cup (IF e.proceeded /\ ~e.wsSameSock THEN {"C19.websocket_request_outside_tunnel"} ELSE {})
             \cup (IF e.proceeded /\ e.wsHost # e.expectWsHost THEN {"C19.websocket_request_not_addressed_to_origin"} ELSE {})
        ELSE (IF e.proceeded THEN {"C19.proceeded_without_200"} ELSE {})
             \cup (IF ~e.raisedProxy THEN {"C19.refusal_not_reported_as_proxy_error"} ELSE {})
             \cup (IF ~e.closed THEN {"C19.transport_left_open_after_refusal"} ELSE {}))
=============================================================================
