-------------------------------- MODULE TlsMC --------------------------------
(* The decision table itself: TLC evaluates the meta-properties over all          *)
(* configurations x certificates, and walks the connect sequence machine           *)
(* Tcp -> [Tunnel] -> TlsHello -> TlsDone/Reject -> WsRequest.                     *)
EXTENDS Tls
ASSUME DefaultStrict
ASSUME UntrustedRejectedByDefault
ASSUME OnlyDocumentedWeaken
ASSUME CaOptionsDoNotDisableNameCheck
ASSUME CheckHostnameFalseKeepsChain
ASSUME ServerNameKeepsChain
ASSUME TunnelChangesNothing
ASSUME WsNeverWrapped
ASSUME ProtocolChoiceChangesNothing
VARIABLES c, cert, stage, sent
vars == <<c, cert, stage, sent>>
Init == c \in {x \in Cfgs : ~Contradictory(x)} /\ cert \in Certs /\ stage = "tcp" /\ sent = <<>>
Next ==
  \/ stage = "tcp" /\ c.tunnel /\ stage' = "tunnel" /\ sent' = Append(sent, "CONNECT") /\ UNCHANGED <<c, cert>>
  \/ stage \in {"tcp", "tunnel"} /\ (stage = "tcp" => ~c.tunnel) /\ Wrapped(c) /\ stage' = "hello" /\ sent' = Append(sent, "ClientHello") /\ UNCHANGED <<c, cert>>
  \/ stage \in {"tcp", "tunnel"} /\ (stage = "tcp" => ~c.tunnel) /\ ~Wrapped(c) /\ stage' = "ws" /\ sent' = Append(sent, "GET") /\ UNCHANGED <<c, cert>>
  \/ stage = "hello" /\ Outcome(c, cert) = "established" /\ stage' = "ws" /\ sent' = Append(sent, "GET") /\ UNCHANGED <<c, cert>>
  \/ stage = "hello" /\ Outcome(c, cert) = "tls_rejected" /\ stage' = "rejected" /\ UNCHANGED <<c, cert, sent>>
TlsFirstByte == (Wrapped(c) /\ Len(sent) > 0) => (sent[1] = (IF c.tunnel THEN "CONNECT" ELSE "ClientHello") /\ (c.tunnel /\ Len(sent) > 1 => sent[2] = "ClientHello"))
NoWsBeforeVerify == (Wrapped(c) /\ \E i \in 1..Len(sent) : sent[i] = "GET") => Outcome(c, cert) = "established"
RejectedSendsNothing == stage = "rejected" => \A i \in 1..Len(sent) : sent[i] # "GET"
=============================================================================
