------------------------------- MODULE TlsBatch -------------------------------
(* Real TLS handshakes (Python ssl / OpenSSL over a socket pair) judged against Tls!Outcome. *)
EXTENDS Tls, Json, IOUtils, VfEmit
Trace == ndJsonDeserialize(IOEnv.TRACE_FILE)
Bad == {i \in 1..Len(Trace) : TlsFaults(Trace[i]) # {}}
ASSUME EmitJson("BAD", [bad |-> {<<i, TlsFaults(Trace[i])>> : i \in Bad}, n |-> Len(Trace)])
VARIABLE x
Init == x = 0
Next == UNCHANGED x
=============================================================================
