------------------------------ MODULE ConnectM ------------------------------
(***************************************************************************)
(* connect() / create_connection() as a machine over the opening           *)
(* handshake attempts of one call (C09): each attempt writes a request     *)
(* with its own key on a fresh transport and reads one response head;      *)
(* redirects are followed at most `limit` times and are never success;     *)
(* every failure leaves the object unconnected with all transports closed. *)
(* Total step function, shared by model checking (ConnectMC) and trace     *)
(* validation (TraceConnect).                                              *)
(***************************************************************************)
EXTENDS Http

NoHead == [complete |-> FALSE, status |-> 0, upgrade |-> <<>>, connection |-> <<>>,
           accept |-> "none", subproto |-> "", location |-> FALSE, free |-> FALSE]

CInit(limit, offered) ==
  [limit |-> limit, offered |-> offered, attempts |-> 0, followups |-> 0,
   head |-> NoHead, haveHead |-> FALSE, keys |-> <<>>, done |-> FALSE, result |-> "none"]

CRes(s, ok, why) == [s |-> s, ok |-> ok, why |-> why]
CFail(s, why) == CRes(s, FALSE, why)

\* a request (with key e.key) was written on a fresh transport (when the transport of the previous attempt
\* is closed is the implementation's business; that none is left open is judged with the outcome)
CAttempt(s, e) ==
  IF s.done THEN CFail(s, "C09.network_activity_after_outcome")
  ELSE IF s.attempts = 0 THEN CRes([s EXCEPT !.attempts = 1, !.keys = <<e.key>>, !.haveHead = FALSE], TRUE, "")
  ELSE IF ~s.haveHead THEN CFail(s, "C09.second_request_without_response")
  ELSE IF s.head.free THEN CRes([s EXCEPT !.attempts = @ + 1, !.followups = @ + 1, !.keys = Append(@, e.key), !.haveHead = FALSE], TRUE, "")
  ELSE IF ~IsRedirect(s.head) THEN CFail(s, "C09.followed_non_redirect")
  ELSE IF s.followups >= s.limit THEN CFail(s, "C09.redirect_limit_exceeded")
  ELSE IF e.key \in ToSet(s.keys) THEN CFail(s, "C10.key_reused")
  ELSE CRes([s EXCEPT !.attempts = @ + 1, !.followups = @ + 1, !.keys = Append(@, e.key), !.haveHead = FALSE], TRUE, "")

CHead(s, e) ==
  IF s.attempts = 0 \/ s.haveHead THEN CFail(s, "harness.head_without_request")
  ELSE CRes([s EXCEPT !.head = e.h, !.haveHead = TRUE], TRUE, "")

\* e: [kind ("returned"|"raised"), doc, terr, connected, sockNone, open (transports still open), cls]
COutcome(s, e) ==
  IF s.done THEN CFail(s, "harness.two_outcomes")
  ELSE LET valid == s.haveHead /\ Accepts(s.head, s.offered)
           s1 == [s EXCEPT !.done = TRUE, !.result = e.kind] IN
    IF s.haveHead /\ s.head.free THEN
       \* malformed head (C17 scenarios): either outcome, but a consistent one
       IF e.kind = "returned" THEN
          IF ~e.connected \/ e.sockNone \/ e.open # 1 THEN CFail(s, "C09.returned_but_not_connected") ELSE CRes(s1, TRUE, "")
       ELSE IF ~(e.doc \/ e.terr) THEN CFail(s, "C17.undocumented_exception")
       ELSE IF e.connected \/ ~e.sockNone \/ e.open # 0 THEN CFail(s, "C09.failure_leaves_transport_open")
       ELSE CRes(s1, TRUE, "")
    ELSE IF e.kind = "returned" THEN
       IF ~s.haveHead THEN CFail(s, "C09.connected_without_response")
       ELSE IF IsRedirect(s.head) THEN CFail(s, "C09.redirect_reported_as_success")
       ELSE IF ~valid THEN
            CFail(s, IF ~s.head.complete THEN "C09.connected_on_truncated_response"
                     ELSE IF s.head.status # 101 THEN "C09.connected_without_101"
                     ELSE IF "websocket" \notin ToSet(s.head.upgrade) THEN "C09.connected_without_upgrade_header"
                     ELSE IF "upgrade" \notin ToSet(s.head.connection) THEN "C09.connected_without_connection_header"
                     ELSE IF s.head.accept = "caseswapped" THEN "C09.accept_compared_case_insensitively"
                     ELSE IF s.head.accept # "right" THEN "C09.connected_with_wrong_accept"
                     ELSE "C09.connected_with_unoffered_subprotocol")
       ELSE IF ~e.connected \/ e.sockNone THEN CFail(s, "C09.returned_but_not_connected")
       ELSE IF e.open # 1 THEN CFail(s, "C09.stale_transport_left_open")
       ELSE CRes(s1, TRUE, "")
    ELSE \* raised
       IF valid THEN CFail(s, "C09.valid_upgrade_rejected")
       ELSE IF ~(e.doc \/ e.terr) THEN CFail(s, "C17.undocumented_exception")
       ELSE IF e.connected THEN CFail(s, "C09.failure_leaves_object_connected")
       ELSE IF ~e.sockNone THEN CFail(s, "C09.failure_keeps_transport_reference")
       ELSE IF e.open # 0 THEN CFail(s, "C09.failure_leaves_transport_open")
       ELSE CRes(s1, TRUE, "")

CStep(s, e) ==
  CASE e.ev = "attempt" -> CAttempt(s, e)
    [] e.ev = "head"    -> CHead(s, e)
    [] e.ev = "outcome" -> COutcome(s, e)
    [] e.ev = "hang"    -> CFail(s, "C17.no_progress")
    [] e.ev = "bigreq"  -> CFail(s, "C17.request_driven_by_declared_length")
    [] OTHER            -> CFail(s, "harness.unknown_event")
=============================================================================
