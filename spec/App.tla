--------------------------------- MODULE App ---------------------------------
(***************************************************************************)
(* WebSocketApp.run_forever as communicating processes over an integer     *)
(* clock: the Main loop (validate, dial, on_open, select / read / dispatch  *)
(* / check, disconnect handling, reconnect wait, teardown, return), the     *)
(* Ping thread (wait I; loop: wait I, stamp, ping), a User thread calling   *)
(* close() at some tick, the Net (scripted servers: refuse / establish,     *)
(* timed frames, pong latency, end of stream) and the Clock (time advances  *)
(* to the next deadline only when nobody can move - discrete-event          *)
(* semantics, the same rule as the simulated world of the conformance       *)
(* runs).  Shared variables are those of the implementation: keep_running,  *)
(* the app's socket, has_errored, the teardown flag, last_ping_tm /         *)
(* last_pong_tm, the stop event of the ping thread.                         *)
(*                                                                         *)
(* Every observable step emits the event the real library would show and    *)
(* feeds it to the monitor AppMon!MStep, so the contract (C13-C16) is       *)
(* checked on every interleaving of the processes.  The model is the        *)
(* intended design after the fixes recorded in known_findings.json; the     *)
(* constants StampAlways / CloseAsError re-introduce two of the repaired    *)
(* defects to show that the model can see them.                             *)
(***************************************************************************)
EXTENDS AppMon, VfEmit
CONSTANTS Scenarios,      \* set of scenarios: [I, T, R, conns, userAt, horizon]
          StampAlways,    \* TRUE: every ping overwrites last_ping_tm (the repaired C16 defect)
          CloseAsError,   \* TRUE: a server close frame goes through the error path (the repaired C14 defect)
          CheckTorn,      \* TRUE: check() reads last_ping_tm twice, the ping thread may run in between (the repaired C16 race)
          BlockingRead    \* TRUE: read() waits for the rest of a frame without bound (the repaired C16 defect: silence inside a frame)

VARIABLES sc, now, pc, keepRunning, sockOpen, cid, reconnecting, netQ, netSched, wake,
          lastPing, lastPong, pingPc, pingDue, stopPing, pingN, userDone,
          hasErrored, tornDown, closeFrame, pendingErr, mon, bad, chk
vars == <<sc, now, pc, keepRunning, sockOpen, cid, reconnecting, netQ, netSched, wake,
          lastPing, lastPong, pingPc, pingDue, stopPing, pingN, userDone,
          hasErrored, tornDown, closeFrame, pendingErr, mon, bad, chk>>

NoFrame == [kind |-> "none"]
Cbs == <<"open", "reconnect", "message", "data", "error", "close", "ping", "pong">>
Tsel == IF sc.T > 0 THEN sc.T ELSE 10

\* ---- feeding the monitor -------------------------------------------------
Feed1(m, b, e) == LET r == MStep(m, e) IN IF b # "" THEN <<m, b>> ELSE IF r.ok THEN <<r.s, "">> ELSE <<m, r.why>>
RECURSIVE FeedAll(_, _, _)
FeedAll(m, b, es) == IF es = <<>> THEN <<m, b>> ELSE LET x == Feed1(m, b, Head(es)) IN FeedAll(x[1], x[2], Tail(es))
Emit(es) == LET x == FeedAll(mon, bad, es) IN mon' = x[1] /\ bad' = x[2]

Arg(data, ty) == [type |-> ty, data |-> data]
CbEv(name, c, data, ty, dtype) ==
  [ev |-> "cb", t |-> now, name |-> name, cid |-> c, arg |-> Arg(data, ty), dtype |-> dtype, fin |-> TRUE, cls |-> "",
   isexc |-> TRUE, status |-> -1, reason |-> Arg(<<>>, "none"), none |-> FALSE]
ErrEv(cls, isexc) == [CbEv("error", cid, <<>>, "none", -1) EXCEPT !.cls = cls, !.isexc = isexc]
CloseEv(fr) == IF fr.kind = "close"
               THEN [CbEv("close", cid, <<>>, "none", -1) EXCEPT !.status = 1000, !.reason = Arg(<<98>>, "str")]
               ELSE [CbEv("close", cid, <<>>, "none", -1) EXCEPT !.none = TRUE]
SrvEv(k) ==
  CASE k = "text"  -> [ev |-> "srv", t |-> now, cid |-> cid, kind |-> "msg", data |-> <<116>>, op |-> 1, hasBody |-> FALSE, status |-> 0, reason |-> <<>>]
    [] k = "ping"  -> [ev |-> "srv", t |-> now, cid |-> cid, kind |-> "ping", data |-> <<>>, op |-> 9, hasBody |-> FALSE, status |-> 0, reason |-> <<>>]
    [] k = "pong"  -> [ev |-> "srv", t |-> now, cid |-> cid, kind |-> "pong", data |-> <<>>, op |-> 10, hasBody |-> FALSE, status |-> 0, reason |-> <<>>]
    [] k = "close" -> [ev |-> "srv", t |-> now, cid |-> cid, kind |-> "close", data |-> <<>>, op |-> 8, hasBody |-> TRUE, status |-> 1000, reason |-> <<98>>]
    [] k = "eof"   -> [ev |-> "srv", t |-> now, cid |-> cid, kind |-> "eof", data |-> <<>>, op |-> 0, hasBody |-> FALSE, status |-> 0, reason |-> <<>>]
    [] k = "partial" -> [ev |-> "srv", t |-> now, cid |-> cid, kind |-> "partial", data |-> <<>>, op |-> 0, hasBody |-> FALSE, status |-> 0, reason |-> <<>>]

Conn == sc.conns[cid + 1]
HaveConn == cid + 1 <= Len(sc.conns)

Init ==
  /\ sc \in Scenarios
  /\ now = 0 /\ pc = "start" /\ keepRunning = FALSE /\ sockOpen = FALSE /\ cid = -1 /\ reconnecting = FALSE
  /\ netQ = <<>> /\ netSched = {} /\ wake = -1 /\ lastPing = 0 /\ lastPong = 0
  /\ pingPc = "off" /\ pingDue = -1 /\ stopPing = FALSE /\ pingN = 0 /\ userDone = FALSE
  /\ hasErrored = FALSE /\ tornDown = FALSE /\ closeFrame = NoFrame /\ pendingErr = "" /\ mon = MInit /\ bad = "" /\ chk = FALSE

UNCH(vs) == UNCHANGED vs

(* ------------------------------ Main -------------------------------------- *)
Start ==
  /\ pc = "start"
  /\ LET refuse == (sc.T < 0) \/ (sc.T > 0 /\ sc.I > 0 /\ sc.I <= sc.T)
         b == [ev |-> "run_begin", t |-> now, run |-> 0, interval |-> sc.I, timeout |-> IF sc.T < 0 THEN 0 ELSE sc.T,
               timeoutGiven |-> sc.T # 0, reconnect |-> sc.R, cbs |-> Cbs, dispatcher |-> "builtin", payload |-> <<>>, jitter |-> 0]
     IN IF refuse
        THEN /\ Emit(<<b, [ev |-> "run_raise", t |-> now, cls |-> "WebSocketException", run |-> 0]>>)
             /\ pc' = "done" /\ keepRunning' = FALSE
        ELSE /\ Emit(<<b>>) /\ pc' = "dial" /\ keepRunning' = TRUE
  /\ UNCH(<<sc, now, sockOpen, cid, reconnecting, netQ, netSched, wake, lastPing, lastPong, pingPc, pingDue, stopPing,
            pingN, userDone, hasErrored, tornDown, closeFrame, pendingErr>>)

\* setSock(): one connection attempt
Dial ==
  /\ pc = "dial"
  /\ cid' = cid + 1
  /\ IF cid + 2 > Len(sc.conns) \/ ~sc.conns[cid + 2].accept
     THEN \* refused: ConnectionRefusedError -> handleDisconnect
          /\ Emit(<<[ev |-> "dial", t |-> now, cid |-> cid + 1, outcome |-> "refused"]>>)
          /\ pc' = "disconnect" /\ pendingErr' = "ConnectionRefusedError"
          /\ UNCH(<<sockOpen, netQ, netSched, lastPing, lastPong, pingPc, pingDue, stopPing, pingN>>)
     ELSE LET c == sc.conns[cid + 2] IN
          /\ sockOpen' = TRUE /\ netQ' = <<>>
          /\ netSched' = {[t |-> now + c.ev[i][1], kind |-> c.ev[i][2], c |-> cid + 1] : i \in 1..Len(c.ev)}
          /\ lastPing' = 0 /\ lastPong' = 0 /\ stopPing' = FALSE /\ pingN' = 0
          /\ pingPc' = (IF sc.I > 0 THEN "wait1" ELSE "off") /\ pingDue' = (IF sc.I > 0 THEN now + sc.I ELSE -1)
          /\ Emit(<<[ev |-> "dial", t |-> now, cid |-> cid + 1, outcome |-> "established"],
                    CbEv(IF reconnecting THEN "reconnect" ELSE "open", cid + 1, <<>>, "none", -1)>>)
          /\ pc' = "looptest" /\ pendingErr' = ""
  /\ UNCH(<<sc, now, keepRunning, reconnecting, wake, userDone, hasErrored, tornDown, closeFrame>>)

LoopTest ==
  /\ pc = "looptest"
  /\ IF ~keepRunning THEN pc' = "afterloop" /\ wake' = wake
     ELSE IF netQ # <<>> THEN pc' = "read" /\ wake' = wake
     ELSE pc' = "select" /\ wake' = now + Tsel
  /\ UNCH(<<sc, now, keepRunning, sockOpen, cid, reconnecting, netQ, netSched, lastPing, lastPong, pingPc, pingDue, stopPing,
            pingN, userDone, hasErrored, tornDown, closeFrame, pendingErr, mon, bad>>)

SelectWake ==
  /\ pc = "select"
  /\ \/ netQ # <<>> /\ pc' = "read"
     \/ netQ = <<>> /\ ~sockOpen /\ pc' = "read"            \* closed by the user thread: readable
     \/ netQ = <<>> /\ sockOpen /\ now = wake /\ pc' = "check"
  /\ UNCH(<<sc, now, keepRunning, sockOpen, cid, reconnecting, netQ, netSched, wake, lastPing, lastPong, pingPc, pingDue, stopPing,
            pingN, userDone, hasErrored, tornDown, closeFrame, pendingErr, mon, bad>>)

\* read(): one frame
Read ==
  /\ pc = "read"
  /\ IF ~keepRunning \/ ~sockOpen THEN pc' = "teardown" /\ UNCH(<<netQ, lastPong, closeFrame, pendingErr, mon, bad>>)
     ELSE LET k == Head(netQ) IN
          /\ netQ' = Tail(netQ)
          /\ CASE k = "text" -> /\ Emit(<<CbEv("data", cid, <<116>>, "str", 1), CbEv("message", cid, <<116>>, "str", -1)>>)
                                /\ pc' = "check" /\ UNCH(<<lastPong, closeFrame, pendingErr>>)
               [] k = "ping" -> /\ Emit(<<CbEv("ping", cid, <<>>, "bytes", -1)>>)
                                /\ pc' = "check" /\ UNCH(<<lastPong, closeFrame, pendingErr>>)
               [] k = "pong" -> /\ lastPong' = now /\ Emit(<<CbEv("pong", cid, <<>>, "bytes", -1)>>)
                                /\ pc' = "check" /\ UNCH(<<closeFrame, pendingErr>>)
               [] k = "close" -> IF CloseAsError
                                 THEN pc' = "disconnect" /\ pendingErr' = "ABNF" /\ UNCH(<<lastPong, closeFrame, mon, bad>>)
                                 ELSE pc' = "teardown" /\ closeFrame' = [kind |-> "close"] /\ UNCH(<<lastPong, pendingErr, mon, bad>>)
               [] k = "eof" -> pc' = "disconnect" /\ pendingErr' = "WebSocketConnectionClosedException"
                               /\ UNCH(<<lastPong, closeFrame, mon, bad>>)
               \* the first bytes of a frame and then nothing: the read waits for the rest - with a ping timeout for at
               \* most that long, then it comes back to the loop (the bytes stay buffered) and check() judges the peer
               [] k = "partial" -> pc' = (IF BlockingRead \/ sc.T <= 0 THEN "stuck" ELSE "readwait")
                                   /\ UNCH(<<lastPong, closeFrame, pendingErr, mon, bad>>)
  /\ wake' = IF pc' = "readwait" THEN now + sc.T ELSE wake
  /\ UNCH(<<sc, now, keepRunning, sockOpen, cid, reconnecting, netSched, lastPing, pingPc, pingDue, stopPing,
            pingN, userDone, hasErrored, tornDown>>)

\* a read that waits inside a frame: ended by its timeout, or by close() from another thread (the transport is gone)
ReadWait ==
  /\ pc \in {"readwait", "stuck"}
  /\ \/ ~sockOpen /\ pc' = "teardown"
     \/ sockOpen /\ pc = "readwait" /\ now = wake /\ pc' = "check"
  /\ UNCH(<<sc, now, keepRunning, sockOpen, cid, reconnecting, netQ, netSched, wake, lastPing, lastPong, pingPc, pingDue, stopPing,
            pingN, userDone, hasErrored, tornDown, closeFrame, pendingErr, mon, bad>>)

\* check(): the ping/pong timeout predicate, exactly as the code writes it.  The code reads the ping stamp once
\* (CheckTorn = FALSE); the earlier code read it for the expiry test and again for the pong tests, two steps with a
\* window for the ping thread in between (CheckTorn = TRUE, kept to show that the model sees the race).
Check ==
  /\ pc = "check"
  /\ IF CheckTorn
     THEN pc' = "check2" /\ chk' = (sc.T > 0 /\ lastPing # 0 /\ now - lastPing > sc.T) /\ pendingErr' = pendingErr
     ELSE /\ chk' = chk
          /\ IF sc.T > 0 /\ lastPing # 0 /\ now - lastPing > sc.T /\ (lastPong - lastPing < 0 \/ lastPong - lastPing > sc.T)
             THEN pc' = "disconnect" /\ pendingErr' = "WebSocketTimeoutException"
             ELSE pc' = "looptest" /\ pendingErr' = pendingErr
  /\ UNCH(<<sc, now, keepRunning, sockOpen, cid, reconnecting, netQ, netSched, wake, lastPing, lastPong, pingPc, pingDue, stopPing,
            pingN, userDone, hasErrored, tornDown, closeFrame, mon, bad>>)
Check2 ==
  /\ pc = "check2"
  /\ IF chk /\ lastPing # 0 /\ (lastPong - lastPing < 0 \/ lastPong - lastPing > sc.T)
     THEN pc' = "disconnect" /\ pendingErr' = "WebSocketTimeoutException"
     ELSE pc' = "looptest" /\ pendingErr' = pendingErr
  /\ UNCH(<<sc, now, keepRunning, sockOpen, cid, reconnecting, netQ, netSched, wake, lastPing, lastPong, pingPc, pingDue, stopPing,
            pingN, userDone, hasErrored, tornDown, closeFrame, mon, bad, chk>>)

\* handleDisconnect(e, reconnecting); a failure after the application's close() is not an error of the run
Disconnect ==
  /\ pc = "disconnect"
  /\ IF ~keepRunning
     THEN pc' = "teardown" /\ UNCH(<<hasErrored, stopPing, lastPing, lastPong, wake, mon, bad>>)
     ELSE /\ hasErrored' = TRUE /\ stopPing' = TRUE /\ lastPing' = 0 /\ lastPong' = 0
          /\ IF ~reconnecting THEN Emit(<<ErrEv(pendingErr, pendingErr # "ABNF")>>) ELSE UNCH(<<mon, bad>>)
          /\ IF sc.R > 0 THEN pc' = "rsleep" /\ wake' = now + sc.R ELSE pc' = "teardown" /\ wake' = wake
  /\ UNCH(<<sc, now, keepRunning, sockOpen, cid, reconnecting, netQ, netSched, pingPc, pingDue, pingN, userDone, tornDown,
            closeFrame, pendingErr>>)

\* the loop ended without an exception (keep_running went false)
AfterLoop ==
  /\ pc = "afterloop"
  /\ pc' = "teardown"
  /\ UNCH(<<sc, now, keepRunning, sockOpen, cid, reconnecting, netQ, netSched, wake, lastPing, lastPong, pingPc, pingDue, stopPing,
            pingN, userDone, hasErrored, tornDown, closeFrame, pendingErr, mon, bad>>)

\* dispatcher.reconnect(): sleep R, then setSock(reconnecting = True) - unless close() came meanwhile
ReconnectWake ==
  /\ pc = "rsleep" /\ now = wake
  /\ IF ~keepRunning THEN pc' = "teardown" /\ UNCH(<<reconnecting, sockOpen, mon, bad>>)
     ELSE /\ pc' = "dial" /\ reconnecting' = TRUE
          /\ IF sockOpen THEN sockOpen' = FALSE /\ Emit(<<[ev |-> "tclose", t |-> now, cid |-> cid]>>)
             ELSE UNCH(<<sockOpen, mon, bad>>)
  /\ UNCH(<<sc, now, keepRunning, cid, netQ, netSched, wake, lastPing, lastPong, pingPc, pingDue, stopPing,
            pingN, userDone, hasErrored, tornDown, closeFrame, pendingErr>>)

Teardown ==
  /\ pc = "teardown"
  /\ IF tornDown THEN UNCH(<<tornDown, stopPing, keepRunning, sockOpen, mon, bad, lastPing, lastPong>>)
     ELSE /\ tornDown' = TRUE /\ stopPing' = TRUE /\ keepRunning' = FALSE /\ sockOpen' = FALSE /\ lastPing' = 0 /\ lastPong' = 0
          /\ Emit((IF sockOpen THEN <<[ev |-> "tclose", t |-> now, cid |-> cid]>> ELSE <<>>) \o <<CloseEv(closeFrame)>>)
  /\ pc' = "return"
  /\ UNCH(<<sc, now, cid, reconnecting, netQ, netSched, wake, pingPc, pingDue, pingN, userDone, hasErrored, closeFrame, pendingErr>>)

Return ==
  /\ pc = "return" /\ pingPc \in {"off", "stopped"}       \* join: the ping thread is gone
  /\ Emit(<<[ev |-> "run_ret", t |-> now, value |-> hasErrored, run |-> 0, live |-> <<>>],      \* (joined above: no ping thread is left)
            [ev |-> "quiesce", t |-> now, open |-> IF sockOpen THEN 1 ELSE 0, live |-> <<>>, sock_none |-> ~sockOpen,
             deadlock |-> FALSE, overrun |-> FALSE]>>)
  /\ pc' = "done"
  /\ UNCH(<<sc, now, keepRunning, sockOpen, cid, reconnecting, netQ, netSched, wake, lastPing, lastPong, pingPc, pingDue, stopPing,
            pingN, userDone, hasErrored, tornDown, closeFrame, pendingErr>>)

(* ------------------------------ Ping thread ------------------------------- *)
PingStep ==
  /\ pingPc \in {"wait1", "loop"}
  /\ \/ /\ (stopPing \/ ~keepRunning)                    \* Event.wait() returns at once when set
        /\ pingPc' = "stopped" /\ UNCH(<<pingDue, lastPing, pingN, netSched, mon, bad>>)
     \/ /\ ~stopPing /\ keepRunning /\ now = pingDue
        /\ IF pingPc = "wait1"
           THEN pingPc' = "loop" /\ pingDue' = now + sc.I /\ UNCH(<<lastPing, pingN, netSched, mon, bad>>)
           ELSE /\ pingPc' = "loop" /\ pingDue' = now + sc.I
                /\ IF sockOpen
                   THEN LET c == Conn
                            answers == c.lat >= 0 /\ (c.stopAfter = 0 \/ pingN + 1 <= c.stopAfter) IN
                        /\ lastPing' = IF StampAlways \/ lastPong >= lastPing THEN now ELSE lastPing
                        /\ pingN' = pingN + 1
                        /\ netSched' = IF answers THEN netSched \cup {[t |-> now + c.lat, kind |-> "pong", c |-> cid]} ELSE netSched
                        /\ Emit(<<[ev |-> "ping_sent", t |-> now, cid |-> cid, data |-> <<>>, n |-> pingN + 1,
                                   lat |-> IF answers THEN c.lat ELSE -1]>>)
                   ELSE UNCH(<<lastPing, pingN, netSched, mon, bad>>)
  /\ UNCH(<<sc, now, pc, keepRunning, sockOpen, cid, reconnecting, netQ, wake, lastPong, stopPing, userDone,
            hasErrored, tornDown, closeFrame, pendingErr>>)

(* ------------------------------ User thread ------------------------------- *)
UserClose ==
  /\ ~userDone /\ sc.userAt >= 0 /\ now = sc.userAt /\ pc # "start"
  /\ userDone' = TRUE /\ keepRunning' = FALSE /\ sockOpen' = FALSE
  /\ Emit(<<[ev |-> "app_close", t |-> now, where |-> "user"]>> \o
          (IF sockOpen THEN <<[ev |-> "tclose", t |-> now, cid |-> cid]>> ELSE <<>>))
  /\ UNCH(<<sc, now, pc, cid, reconnecting, netQ, netSched, wake, lastPing, lastPong, pingPc, pingDue, stopPing, pingN,
            hasErrored, tornDown, closeFrame, pendingErr>>)

(* ------------------------------ Net --------------------------------------- *)
Deliver ==
  /\ \E d \in netSched :
       /\ d.t = now
       /\ netSched' = netSched \ {d}
       /\ IF d.c = cid /\ sockOpen
          THEN netQ' = Append(netQ, d.kind) /\ Emit(<<SrvEv(d.kind)>>)
          ELSE UNCH(<<netQ, mon, bad>>)
  /\ UNCH(<<sc, now, pc, keepRunning, sockOpen, cid, reconnecting, wake, lastPing, lastPong, pingPc, pingDue, stopPing,
            pingN, userDone, hasErrored, tornDown, closeFrame, pendingErr>>)

(* ------------------------------ Clock ------------------------------------- *)
MainCanMove == pc \in {"start", "dial", "looptest", "read", "check", "check2", "disconnect", "afterloop", "teardown"}
               \/ (pc = "select" /\ (netQ # <<>> \/ ~sockOpen \/ now = wake))
               \/ (pc = "readwait" /\ (~sockOpen \/ now = wake)) \/ (pc = "stuck" /\ ~sockOpen)
               \/ (pc = "rsleep" /\ now = wake)
               \/ (pc = "return" /\ pingPc \in {"off", "stopped"})
PingCanMove == pingPc \in {"wait1", "loop"} /\ (stopPing \/ ~keepRunning \/ now = pingDue)
UserCanMove == ~userDone /\ sc.userAt >= 0 /\ now = sc.userAt /\ pc # "start"
NetCanMove == \E d \in netSched : d.t = now
Deadlines == (IF pc \in {"select", "rsleep", "readwait"} THEN {wake} ELSE {})
             \cup (IF pingPc \in {"wait1", "loop"} THEN {pingDue} ELSE {})
             \cup (IF ~userDone /\ sc.userAt >= 0 THEN {sc.userAt} ELSE {})
             \cup {d.t : d \in netSched}
Tick ==
  /\ pc # "done" /\ ~MainCanMove /\ ~PingCanMove /\ ~UserCanMove /\ ~NetCanMove
  /\ {x \in Deadlines : x > now} # {}
  /\ now' = CHOOSE x \in Deadlines : x > now /\ \A y \in Deadlines : y > now => x <= y
  /\ UNCH(<<sc, pc, keepRunning, sockOpen, cid, reconnecting, netQ, netSched, wake, lastPing, lastPong, pingPc, pingDue, stopPing,
            pingN, userDone, hasErrored, tornDown, closeFrame, pendingErr, mon, bad>>)

Next == Check \/ Check2
        \/ ((Start \/ Dial \/ LoopTest \/ SelectWake \/ Read \/ Disconnect \/ AfterLoop \/ ReconnectWake \/ Teardown \/ Return
             \/ ReadWait \/ PingStep \/ UserClose \/ Deliver \/ Tick) /\ UNCHANGED chk)
Spec == Init /\ [][Next]_vars /\ WF_vars(Next)

(* ------------------------------ properties -------------------------------- *)
MonitorOk == bad = ""                       \* C13-C16 as judged by AppMon on every interleaving
CloseOnce == mon.nclose <= 1
SingleTransport == Cardinality({k \in 1..Len(mon.conns) : mon.conns[k].outcome = "established" /\ ~mon.conns[k].tclosed}) <= 1
TimeBounded == now <= sc.horizon
Termination == <>(pc = "done")
NoStuck == pc = "done" \/ ENABLED Next
\* spec -> code: every way a scenario can end, as the application would see it (replayed into the real library)
EmitDone == pc = "done" => EmitJson("B", [sc |-> sc, log |-> mon.log])
W_Timeout == ~(pendingErr = "WebSocketTimeoutException")
W_Reconnected == ~(reconnecting /\ pc = "looptest")
W_ClosedByFrame == ~(closeFrame.kind = "close" /\ pc = "done")
=============================================================================
