------------------------------- MODULE TargetMC -------------------------------
(***************************************************************************)
(* (a) enumerates the URL component product and prints every URL with the  *)
(*     target the specification expects (scenarios for the real parser);   *)
(* (b) model-checks the dial loop as a step machine against DialFaults and *)
(*     its own invariants;                                                 *)
(* (c) guards the label-sequence definition of a dot-domain exemption      *)
(*     against a string-level one over all small host names.               *)
(***************************************************************************)
EXTENDS Target, VfEmit
CONSTANTS MaxAddrs, EmitUrls

ASSUME EmitUrls => \A c \in UrlComponents : EmitJson("U", [c |-> c, url |-> Render(c), exp |-> ExpectedTarget(c)])

Labels == {"a", "b", "ab", "ba"}
Names == UNION {[1..k -> Labels] : k \in 1..3}
DotExemptAgrees ==
  \A h \in Names, d \in UNION {[1..k -> Labels] : k \in 1..2} :
     IsSuffix(d, h) <=> EndsWithAtBoundary(JoinLabels(h), JoinLabels(d))
ASSUME DotExemptAgrees
ASSUME \A p \in 0..32 : SamePrefix(<<10, 20, 30, 40>>, <<10, 20, 30, 40>>, p)
ASSUME SamePrefix(<<10, 20, 30, 40>>, <<10, 20, 30, 41>>, 31) /\ ~SamePrefix(<<10, 20, 30, 40>>, <<10, 20, 30, 41>>, 32)
ASSUME SamePrefix(<<10, 20, 30, 40>>, <<10, 20, 31, 0>>, 23) /\ ~SamePrefix(<<10, 20, 30, 40>>, <<10, 20, 31, 0>>, 24)
ASSUME SamePrefix(<<255, 0, 0, 0>>, <<0, 9, 9, 9>>, 0) /\ ~SamePrefix(<<255, 0, 0, 0>>, <<127, 0, 0, 0>>, 1)

\* ---- the dial loop
VARIABLES outcomes, i, pc, tried, result, open
vars == <<outcomes, i, pc, tried, result, open>>
Init == /\ outcomes \in UNION {[1..n -> Outcomes] : n \in 1..MaxAddrs}
        /\ i = 1 /\ pc = "socket" /\ tried = <<>> /\ result = [kind |-> "none", idx |-> 0] /\ open = {}
Socket == pc = "socket" /\ pc' = "configure" /\ open' = open \cup {i}
          /\ tried' = Append(tried, [addr |-> i, timeoutSet |-> FALSE, defaults |-> FALSE, user |-> FALSE, closed |-> FALSE])
          /\ UNCHANGED <<outcomes, i, result>>
Configure == pc = "configure" /\ pc' = "connect"
             /\ tried' = [tried EXCEPT ![i].timeoutSet = TRUE, ![i].defaults = TRUE, ![i].user = TRUE]
             /\ UNCHANGED <<outcomes, i, result, open>>
Connect == /\ pc = "connect"
           /\ IF outcomes[i] = "ok"
              THEN pc' = "done" /\ result' = [kind |-> "ok", idx |-> i] /\ UNCHANGED <<tried, open, i>>
              ELSE /\ tried' = [tried EXCEPT ![i].closed = TRUE] /\ open' = open \ {i}
                   /\ IF Falls(outcomes[i]) /\ i < Len(outcomes)
                      THEN pc' = "socket" /\ i' = i + 1 /\ result' = result
                      ELSE pc' = "done" /\ result' = [kind |-> "raise", idx |-> i] /\ i' = i
           /\ UNCHANGED outcomes
Next == Socket \/ Configure \/ Connect
DialConsistent == pc = "done" => DialFaults([outcomes |-> outcomes, tried |-> tried, result |-> result]) = {}
AtMostOneOpen == Cardinality(open) <= 1
NoLeak == pc = "done" => open = (IF result.kind = "ok" THEN {result.idx} ELSE {})
RefusedNeverAborts == (pc = "done" /\ result.kind = "raise") =>
                         (outcomes[result.idx] = "other" \/ result.idx = Len(outcomes))
StopsAtFirstOk == (pc = "done" /\ result.kind = "ok") => \A j \in 1..(result.idx - 1) : Falls(outcomes[j])
=============================================================================
