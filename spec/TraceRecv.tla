------------------------------ MODULE TraceRecv ------------------------------
(***************************************************************************)
(* Validation of traces recorded from the real library against Recv.tla.   *)
(* One file holds many traces: a "begin" event (stream, configuration)     *)
(* resets the machine, every following event is applied with Recv!Step.    *)
(* Step is total, so a rejected trace does not stop the batch: the first   *)
(* unexplained event of each trace is recorded (trace id, position, event  *)
(* kind, clause) and the rest of that trace is skipped.                    *)
(***************************************************************************)
EXTENDS Recv, Json, IOUtils, VfEmit
Trace == ndJsonDeserialize(IOEnv.TRACE_FILE)
VARIABLES l, st, dead, bad, nacc
tvars == <<l, st, dead, bad, nacc>>

\* whole: the behaviour ended by itself (equality); otherwise it was cut at a depth bound (the prediction is a prefix)
ExpectMet(h, x, whole) == IF whole THEN h = x ELSE IsPrefixOf(x, h)

TInit == l = 1 /\ st = InitState(<<>>, FALSE, FALSE) /\ dead = TRUE /\ bad = <<>> /\ nacc = 0

TNext ==
  /\ l <= Len(Trace)
  /\ l' = l + 1
  /\ LET e == Trace[l] IN
     IF e.ev = "begin"
     THEN /\ st' = InitState(e.stream, e.fireCont, e.skipUtf8)
          /\ dead' = FALSE /\ bad' = bad /\ nacc' = nacc
     ELSE IF e.ev = "end"
     THEN \* a trace replayed from a behaviour of RecvSim carries the observable history the model predicted
          LET drift == ~dead /\ "expect" \in DOMAIN e /\ ~ExpectMet(st.hist, e.expect, e.whole) IN
          /\ st' = st /\ dead' = TRUE
          /\ bad' = IF drift THEN Append(bad, [tid |-> e.tid, at |-> e.i, ev |-> "end", why |-> "model.behaviour_not_reproduced"]) ELSE bad
          /\ nacc' = IF dead \/ drift THEN nacc ELSE nacc + 1
     ELSE IF dead THEN UNCHANGED <<st, dead, bad, nacc>>
     ELSE LET r == Step(st, e) IN
          IF r.ok THEN st' = r.s /\ UNCHANGED <<dead, bad, nacc>>
          ELSE /\ st' = st /\ dead' = TRUE /\ nacc' = nacc
               /\ bad' = Append(bad, [tid |-> e.tid, at |-> e.i, ev |-> e.ev, why |-> r.why])

TSpec == TInit /\ [][TNext]_tvars

\* invariants of the machine, evaluated on every state of every accepted prefix
TConservation == dead \/ (st.fpos - 1 <= st.taken /\ st.taken <= Len(st.stream))
TPongs == dead \/ st.failed \/ (IsPrefixOf(st.pongs, st.pings) /\ Len(st.pings) - Len(st.pongs) <= 1)

Done == l = Len(Trace) + 1
Report == Done => EmitJson("VERDICT", [bad |-> bad, accepted |-> nacc, events |-> Len(Trace)])
=============================================================================
