-------------------------------- MODULE Send --------------------------------
(***************************************************************************)
(* The send path under partial writes and threads (C12), as a monitor over *)
(* what reaches the transport: whatever the interleaving of threads and    *)
(* however few bytes the transport accepts per call, the wire is a         *)
(* concatenation of whole frames, one per send call, and every message of  *)
(* the incoming stream is delivered intact to exactly one receiver.        *)
(*                                                                         *)
(* SStep is total (trace validation, TraceSend); SendMC drives it from an  *)
(* implementation-shaped model with the send lock (and, to show the model  *)
(* can see the bug, without it).                                           *)
(***************************************************************************)
EXTENDS Recv

Idle == [busy |-> FALSE, payload |-> <<>>, frame |-> <<>>, flen |-> 0, off |-> 0, started |-> FALSE, kind |-> "none"]

SInit(threads, stream) ==
  [threads |-> threads,
   w |-> [t \in threads |-> Idle],
   wire |-> <<>>,                      \* completed frames: <<thread, opcode, payload length>>
   stream |-> stream,
   delivered |-> <<>>,
   pingsDue |-> <<>>,                  \* payloads of pings seen by receivers, not yet answered
   nbytes |-> 0]

SRes(s, ok, why) == [s |-> s, ok |-> ok, why |-> why]
SFail(s, why) == SRes(s, FALSE, why)

MidFrame(x) == x.started /\ x.off < x.flen
OthersMidFrame(s, t) == \E u \in s.threads : u # t /\ MidFrame(s.w[u])

\* a send call begins on thread t with this payload (binary)
SCall(s, e) ==
  IF e.th \notin s.threads THEN SFail(s, "harness.unknown_thread")
  ELSE IF s.w[e.th].busy THEN SFail(s, "harness.nested_call")
  ELSE SRes([s EXCEPT !.w[e.th] = [Idle EXCEPT !.busy = TRUE, !.payload = e.payload, !.kind = "data"]], TRUE, "")

\* one transport write: e.offered = the bytes handed to the transport (at most 300 recorded),
\* e.offered_len their number, e.accepted how many the transport took
STSend(s, e) ==
  LET t == e.th
      x == s.w[t] IN
  IF t \notin s.threads THEN SFail(s, "harness.unknown_thread")
  ELSE IF OthersMidFrame(s, t) THEN SFail(s, "C12.frames_interleaved_on_the_wire")
  ELSE IF ~x.started THEN
     \* first write of a frame: must offer exactly one whole frame
     LET small == e.offered_len <= 300
         f == Parse(e.offered, 1)
         hdr == ParseL(e.offered, 1, IF Len(e.offered) < 14 THEN Len(e.offered) ELSE 14)
         flen == IF small THEN (IF f.ok THEN f.next - 1 ELSE 0) ELSE hdr.need
     IN
     IF small /\ (~f.ok \/ f.next # e.offered_len + 1) THEN SFail(s, "C12.write_does_not_offer_one_whole_frame")
     ELSE IF ~small /\ (hdr.ok \/ hdr.huge \/ hdr.need # e.offered_len) THEN SFail(s, "C12.write_does_not_offer_one_whole_frame")
     ELSE IF x.busy /\ x.kind = "data" /\ small /\ (f.payload # x.payload \/ f.masked # 1)
          THEN SFail(s, "C12.frame_does_not_carry_the_callers_payload")
     ELSE IF ~x.busy /\ ~(small /\ f.op = OpPong /\ \E i \in 1..Len(s.pingsDue) : s.pingsDue[i] = f.payload)
          THEN SFail(s, "C12.unexpected_write_outside_a_send_call")
     ELSE LET x1 == [x EXCEPT !.started = TRUE, !.flen = flen, !.frame = IF small THEN e.offered ELSE <<>>,
                              !.off = e.accepted, !.kind = IF x.busy THEN x.kind ELSE "pong"]
              done == e.accepted = flen
              s1 == [s EXCEPT !.w[t] = IF done /\ ~x.busy THEN Idle ELSE x1,
                              !.wire = IF done THEN Append(@, <<t, flen>>) ELSE @,
                              !.nbytes = @ + e.accepted,
                              !.pingsDue = IF ~x.busy /\ small
                                           THEN LET i == CHOOSE i \in 1..Len(@) : @[i] = f.payload
                                                IN SubSeq(@, 1, i - 1) \o SubSeq(@, i + 1, Len(@))
                                           ELSE @]
          IN IF e.accepted < 0 \/ e.accepted > e.offered_len THEN SFail(s, "harness.bad_accept") ELSE SRes(s1, TRUE, "")
  ELSE
     \* continuation after a short write: exactly the rest of the same frame
     IF e.offered_len # x.flen - x.off THEN SFail(s, "C12.bytes_lost_or_duplicated_after_short_write")
     ELSE IF x.frame # <<>> /\ e.offered # SubSeq(x.frame, x.off + 1, x.flen) THEN SFail(s, "C12.bytes_lost_or_duplicated_after_short_write")
     ELSE LET off2 == x.off + e.accepted
              done == off2 = x.flen
              s1 == [s EXCEPT !.w[t] = IF done /\ x.kind = "pong" THEN Idle ELSE [x EXCEPT !.off = off2],
                              !.wire = IF done THEN Append(@, <<t, x.flen>>) ELSE @,
                              !.nbytes = @ + e.accepted]
          IN SRes(s1, TRUE, "")

SRet(s, e) ==
  LET x == s.w[e.th] IN
  IF ~x.busy THEN SFail(s, "harness.ret_without_call")
  ELSE IF ~x.started \/ x.off # x.flen THEN SFail(s, "C12.send_returned_before_the_frame_was_complete")
  ELSE IF e.value # x.flen THEN SFail(s, "C01.return_value")
  ELSE SRes([s EXCEPT !.w[e.th] = Idle], TRUE, "")

\* a receiver saw a ping (harness knows from the stream which); the pong is then due
SPing(s, e) == SRes([s EXCEPT !.pingsDue = Append(@, e.payload)], TRUE, "")

SRRet(s, e) == SRes([s EXCEPT !.delivered = Append(@, <<e.op, e.data>>)], TRUE, "")

Count(q, m) == Cardinality({i \in 1..Len(q) : q[i] = m})
SEnd(s, e) ==
  LET want == MsgsOf(Frames(s.stream), 0, <<>>) IN
  IF \E t \in s.threads : MidFrame(s.w[t]) THEN SFail(s, "C12.frame_left_incomplete")
  ELSE IF e.receivers_done /\ (Len(s.delivered) # Len(want) \/ \E i \in 1..Len(want) : Count(s.delivered, want[i]) # Count(want, want[i]))
       THEN SFail(s, "C12.message_lost_duplicated_or_torn_between_receivers")
  ELSE IF ~e.wireOk THEN SFail(s, "C12.wire_is_not_a_sequence_of_whole_frames")
  ELSE SRes(s, TRUE, "")

SStep(s, e) ==
  CASE e.ev = "call"  -> SCall(s, e)
    [] e.ev = "tsend" -> STSend(s, e)
    [] e.ev = "ret"   -> SRet(s, e)
    [] e.ev = "ping"  -> SPing(s, e)
    [] e.ev = "rret"  -> SRRet(s, e)
    [] e.ev = "end"   -> SEnd(s, e)
    [] e.ev = "deadlock" -> SFail(s, "C12.deadlock")
    [] e.ev = "raise" -> SFail(s, "C12.call_failed")
    [] OTHER -> SFail(s, "harness.unknown_event")
=============================================================================
