-------------------------------- MODULE Send --------------------------------
(***************************************************************************)
(* The send path under partial writes and threads (C12), as a monitor over *)
(* what reaches the transport: whatever the interleaving of threads and    *)
(* however few bytes the transport accepts per call, the wire is a         *)
(* concatenation of whole frames, one per send call, and every message of  *)
(* the incoming stream is delivered intact to exactly one receiver.        *)
(*                                                                         *)
(* SStep is total (trace validation, TraceSend); SendMC drives it from an  *)
(* implementation-shaped model with the send lock (and, to show the model  *)
(* can see the bug, without it).                                           *)
(***************************************************************************)
EXTENDS Recv

Idle == [busy |-> FALSE, payload |-> <<>>, acc |-> <<>>, accLen |-> 0, flen |-> 0, done |-> FALSE, kind |-> "none"]

SInit(threads, stream) ==
  [threads |-> threads,
   w |-> [t \in threads |-> Idle],
   wire |-> <<>>,                      \* completed frames: <<thread, frame length>>
   stream |-> stream,
   delivered |-> <<>>,
   pingsDue |-> <<>>,                  \* payloads of pings seen by receivers, not yet answered
   nbytes |-> 0]

SRes(s, ok, why) == [s |-> s, ok |-> ok, why |-> why]
SFail(s, why) == SRes(s, FALSE, why)

\* a thread has put part of a frame on the wire and not yet all of it
MidFrame(x) == x.accLen > 0 /\ ~x.done
OthersMidFrame(s, t) == \E u \in s.threads : u # t /\ MidFrame(s.w[u])

\* total length of the frame whose first bytes are a (0 while the header is not complete)
FrameLenOf(a) ==
  IF Len(a) < 2 THEN 0
  ELSE LET l7 == a[2] % 128
           ext == IF l7 = 126 THEN 2 ELSE IF l7 = 127 THEN 8 ELSE 0
       IN IF Len(a) < 2 + ext THEN 0
          ELSE LET f == ParseL(a, 1, Len(a)) IN IF f.ok THEN f.next - 1 ELSE IF f.huge THEN 0 ELSE f.need

Min2(a, b) == IF a < b THEN a ELSE b

\* a send call begins on thread t with this payload (binary)
SCall(s, e) ==
  IF e.th \notin s.threads THEN SFail(s, "harness.unknown_thread")
  ELSE IF s.w[e.th].busy THEN SFail(s, "harness.nested_call")
  ELSE IF MidFrame(s.w[e.th]) THEN SFail(s, "C12.frame_left_incomplete")
  ELSE SRes([s EXCEPT !.w[e.th] = [Idle EXCEPT !.busy = TRUE, !.payload = e.payload, !.kind = "data"]], TRUE, "")

(* One transport write: e.offered = the bytes handed to the transport (at most 300 recorded), e.offered_len
   their number, e.accepted how many the transport took.  How many writes a frame takes, and what is offered
   again after a short write, is the implementation's business; what counts is the byte stream the transport
   accepted: per call exactly one whole frame, no other thread's bytes in between. *)
STSend(s, e) ==
  LET t == e.th
      x == s.w[t] IN
  IF t \notin s.threads THEN SFail(s, "harness.unknown_thread")
  ELSE IF e.accepted < 0 \/ e.accepted > e.offered_len THEN SFail(s, "harness.bad_accept")
  ELSE IF e.accepted = 0 THEN SRes(s, TRUE, "")
  ELSE IF OthersMidFrame(s, t) THEN SFail(s, "C12.frames_interleaved_on_the_wire")
  ELSE IF x.done THEN SFail(s, "C12.more_than_one_frame_written_for_one_call")
  ELSE
    LET rec == SubSeq(e.offered, 1, Min2(e.accepted, Len(e.offered)))
        acc2 == IF Len(x.acc) < 300 THEN x.acc \o rec ELSE x.acc
        len2 == x.accLen + e.accepted
        fl == IF x.flen # 0 THEN x.flen ELSE FrameLenOf(acc2)
        complete == fl # 0 /\ len2 = fl
        small == fl # 0 /\ fl <= Len(acc2)
        f == Parse(acc2, 1)
    IN
    IF fl # 0 /\ len2 > fl THEN SFail(s, "C12.bytes_lost_or_duplicated_after_short_write")
    ELSE IF Len(acc2) >= 14 /\ fl = 0 THEN SFail(s, "C12.written_bytes_are_not_a_frame")
    ELSE IF ~complete THEN
         SRes([s EXCEPT !.w[t] = [x EXCEPT !.acc = acc2, !.accLen = len2, !.flen = fl,
                                           !.kind = IF x.busy THEN x.kind ELSE "pong"], !.nbytes = @ + e.accepted], TRUE, "")
    ELSE \* the last byte of the frame has been accepted: judge the frame
      IF small /\ (~f.ok \/ f.next # fl + 1 \/ f.masked # 1 \/ f.rsv # 0) THEN SFail(s, "C12.written_bytes_are_not_one_whole_frame")
      ELSE IF small /\ x.busy /\ f.payload # x.payload THEN SFail(s, "C12.frame_does_not_carry_the_callers_payload")
      ELSE IF ~x.busy /\ ~(small /\ f.op = OpPong /\ \E i \in 1..Len(s.pingsDue) : s.pingsDue[i] = f.payload)
           THEN SFail(s, "C12.unexpected_write_outside_a_send_call")
      ELSE SRes([s EXCEPT !.w[t] = IF x.busy THEN [x EXCEPT !.acc = acc2, !.accLen = len2, !.flen = fl, !.done = TRUE] ELSE Idle,
                          !.wire = Append(@, <<t, fl>>), !.nbytes = @ + e.accepted,
                          !.pingsDue = IF ~x.busy
                                       THEN LET i == CHOOSE i \in 1..Len(@) : @[i] = f.payload
                                            IN SubSeq(@, 1, i - 1) \o SubSeq(@, i + 1, Len(@))
                                       ELSE @], TRUE, "")

SRet(s, e) ==
  LET x == s.w[e.th] IN
  IF ~x.busy THEN SFail(s, "harness.ret_without_call")
  ELSE IF ~x.done THEN SFail(s, "C12.send_returned_before_the_frame_was_complete")
  ELSE IF e.value # x.flen /\ e.value # 0 THEN SFail(s, "C01.return_value")       \* (0: a call without return value)
  ELSE SRes([s EXCEPT !.w[e.th] = Idle], TRUE, "")

\* a receiver saw a ping (harness knows from the stream which); the pong is then due
SPing(s, e) == SRes([s EXCEPT !.pingsDue = Append(@, e.payload)], TRUE, "")

SRRet(s, e) == SRes([s EXCEPT !.delivered = Append(@, <<e.op, e.data>>)], TRUE, "")

Count(q, m) == Cardinality({i \in 1..Len(q) : q[i] = m})
SEnd(s, e) ==
  LET want == MsgsOf(Frames(s.stream), 0, <<>>) IN
  IF \E t \in s.threads : MidFrame(s.w[t]) THEN SFail(s, "C12.frame_left_incomplete")
  ELSE IF e.receivers_done /\ (Len(s.delivered) # Len(want) \/ \E i \in 1..Len(want) : Count(s.delivered, want[i]) # Count(want, want[i]))
       THEN SFail(s, "C12.message_lost_duplicated_or_torn_between_receivers")
  ELSE IF ~e.wireOk THEN SFail(s, "C12.wire_is_not_a_sequence_of_whole_frames")
  ELSE SRes(s, TRUE, "")

SStep(s, e) ==
  CASE e.ev = "call"  -> SCall(s, e)
    [] e.ev = "tsend" -> STSend(s, e)
    [] e.ev = "ret"   -> SRet(s, e)
    [] e.ev = "ping"  -> SPing(s, e)
    [] e.ev = "rret"  -> SRRet(s, e)
    [] e.ev = "end"   -> SEnd(s, e)
    [] e.ev = "deadlock" -> SFail(s, "C12.deadlock")
    [] e.ev = "raise" -> SFail(s, "C12.call_failed")
    [] OTHER -> SFail(s, "harness.unknown_event")
=============================================================================
