------------------------------ MODULE TraceCookie ------------------------------
(* Recorded handshake histories stepped through Cookie!KStep (C20).              *)
EXTENDS Cookie, Json, IOUtils, VfEmit
Trace == ndJsonDeserialize(IOEnv.TRACE_FILE)
VARIABLES l, jar, dead, bad, nacc
tvars == <<l, jar, dead, bad, nacc>>
ToPairs(cs) == [i \in 1..Len(cs) |-> <<cs[i][1], cs[i][2]>>]
TInit == l = 1 /\ jar = {} /\ dead = TRUE /\ bad = <<>> /\ nacc = 0
TNext ==
  /\ l <= Len(Trace)
  /\ l' = l + 1
  /\ LET e == Trace[l] IN
     IF e.ev = "begin" THEN jar' = {} /\ dead' = FALSE /\ bad' = bad /\ nacc' = nacc
     ELSE IF e.ev = "end" THEN jar' = jar /\ dead' = TRUE /\ bad' = bad /\ nacc' = IF dead THEN nacc ELSE nacc + 1
     ELSE IF dead THEN UNCHANGED <<jar, dead, bad, nacc>>
     ELSE LET r == KStep(jar, e) IN
          IF r.ok THEN jar' = r.jar /\ UNCHANGED <<dead, bad, nacc>>
          ELSE jar' = jar /\ dead' = TRUE /\ nacc' = nacc
               /\ bad' = Append(bad, [tid |-> e.tid, at |-> e.i, ev |-> e.ev, why |-> r.why])
TSpec == TInit /\ [][TNext]_tvars
OnePerName == \A x, y \in jar : (x[1] = y[1] /\ x[2] = y[2]) => x = y
Done == l = Len(Trace) + 1
Report == Done => EmitJson("VERDICT", [bad |-> bad, accepted |-> nacc, events |-> Len(Trace)])
=============================================================================
