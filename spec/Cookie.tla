-------------------------------- MODULE Cookie --------------------------------
(***************************************************************************)
(* The process-wide cookie jar (C20).  Domains and hosts are sequences of  *)
(* lower-case labels: "label-boundary, case-insensitive" matching is then  *)
(* simply IsSuffix on label sequences, and a look-alike such as bx.a for   *)
(* the domain x.a is a different sequence.  The harness renders labels to  *)
(* text (choosing upper/lower case and the leading dot) and parses the     *)
(* Cookie header that the real client sends.                               *)
(*                                                                         *)
(* One step = one opening handshake: the client connects to `host` with an *)
(* optional caller cookie, sends a Cookie header computed from the jar,    *)
(* and the response may carry Set-Cookie lines naming one Domain.          *)
(***************************************************************************)
EXTENDS Naturals, Sequences, FiniteSets, TLC

NameOrder == <<"a", "k", "m", "z">>          \* names in sorted order (TLC cannot compare strings)

IsSuffix(d, h) == Len(d) <= Len(h) /\ SubSeq(h, Len(h) - Len(d) + 1, Len(h)) = d
Covers(d, h) == d # <<>> /\ IsSuffix(d, h)    \* host = domain, or a subdomain of it

\* jar: set of <<domain, name, value>>, at most one value per (domain, name)
Store(jar, d, cs) ==
  IF d = <<>> THEN jar        \* no Domain attribute: not kept
  ELSE LET names == {cs[i][1] : i \in 1..Len(cs)}
           \* later entries of the same response win
           last(n) == cs[CHOOSE i \in 1..Len(cs) : cs[i][1] = n /\ \A j \in (i+1)..Len(cs) : cs[j][1] # n][2]
       IN {x \in jar : ~(x[1] = d /\ x[2] \in names)} \cup {<<d, n, last(n)>> : n \in names}

RECURSIVE JoinWith(_, _)
JoinWith(ss, sep) == IF ss = <<>> THEN "" ELSE IF Len(ss) = 1 THEN ss[1]
                     ELSE ss[1] \o sep \o JoinWith(Tail(ss), sep)

\* the cookies whose domain covers the host, as "k=v" in name order.  (Histories in which two
\* covering domains hold the same name are outside the scenario space, see DESIGN 4.0.)
Pairs(jar, h) ==
  LET sel == {x \in jar : Covers(x[1], h)}
      F[i \in 0..Len(NameOrder)] ==
        IF i = 0 THEN <<>>
        ELSE LET vs == {x \in sel : x[2] = NameOrder[i]} IN
             IF vs = {} THEN F[i - 1]
             ELSE F[i - 1] \o <<NameOrder[i] \o "=" \o (CHOOSE x \in vs : TRUE)[3]>>
  IN F[Len(NameOrder)]

Wanted(jar, h, user) == Pairs(jar, h) \o (IF user = "" THEN <<>> ELSE <<user>>)
Header(jar, h, user) == JoinWith(Wanted(jar, h, user), "; ")
ToSet(q) == {q[i] : i \in 1..Len(q)}

Ambiguous(jar, h) == \E x, y \in jar : x # y /\ x[2] = y[2] /\ Covers(x[1], h) /\ Covers(y[1], h)

(* total step for trace validation: e = [host, user, sent (the "k=v" items of the Cookie header
   actually sent, <<>> when there was none), domain, cookies] *)
KStep(jar, e) ==
  LET want == Wanted(jar, e.host, e.user)
      foreign == {x[2] \o "=" \o x[3] : x \in {y \in jar : ~Covers(y[1], e.host)}}
  IN
  [jar |-> Store(jar, e.domain, e.cookies),
   ok |-> Ambiguous(jar, e.host) \/ e.sent = want,
   why |-> IF e.sent = want THEN ""
           ELSE IF \E p \in ToSet(e.sent) : p \notin ToSet(want) /\ p \in foreign
                THEN "C20.cookie_sent_outside_its_domain"
           ELSE IF ToSet(e.sent) = ToSet(want) THEN "C20.cookie_order"
           ELSE IF \E p \in ToSet(want) : p \notin ToSet(e.sent) THEN "C20.covered_cookie_missing_or_stale"
           ELSE "C20.cookie_header_differs"]
=============================================================================
