-------------------------------- MODULE Recv --------------------------------
(***************************************************************************)
(* The receive pipeline of a connected WebSocket as a byte-level machine.  *)
(*                                                                         *)
(* Environment: the transport hands over the server's byte stream in       *)
(* arbitrary pieces (trecv), may time out (ttimeout), end (teof) or fail   *)
(* (terr) at any point.  Client: the public calls recv / recv_data /       *)
(* recv_data_frame(control) / recv_frame.  Observable outputs: bytes       *)
(* written (pongs, the close reply), values returned, exceptions raised.   *)
(*                                                                         *)
(* The machine is written around one total operator Step(s, e) over a      *)
(* state record, so that model checking (this module) and validation of    *)
(* traces recorded from the implementation (TraceRecv) share every line.   *)
(* Step returns [s, ok, why]: why names the property clause that the event *)
(* breaks (C02 decode, C03 segmentation/timeouts, C04 reassembly, C05      *)
(* legality, C06 UTF-8, C07 pongs, C08 state, C17 robustness).             *)
(***************************************************************************)
EXTENDS Codec, TLC

None == [none |-> TRUE]

\* one observable output that is due before the transport may be read again
Due(k, op, fin, data, cls) == [k |-> k, op |-> op, fin |-> fin, data |-> data, cls |-> cls, opt |-> FALSE]
DSend(op, payload) == Due("send", op, 1, payload, "")
DRet(op, fin, data) == Due("ret", op, fin, data, "")
DRaise(cls)         == Due("raise", 0, 0, <<>>, cls)

NoCall == [active |-> FALSE, api |-> "", control |-> FALSE]

InitState(stream, fireCont, skipUtf8) ==
  [stream |-> stream, taken |-> 0, fpos |-> 1,
   recving |-> 0, hasCont |-> FALSE, contOp |-> 0, contData |-> <<>>,
   connected |-> TRUE, sockOpen |-> TRUE, eof |-> FALSE,
   call |-> NoCall, due |-> <<>>, hist |-> <<>>,
   fireCont |-> fireCont, skipUtf8 |-> skipUtf8,
   failed |-> FALSE,         \* a protocol/payload error was raised or a close frame was returned:
                             \* RFC 6455 says nothing about what follows, only the generic clauses stay
   pings |-> <<>>, pongs |-> <<>>, closeReplies |-> 0, nframes |-> 0, faults |-> <<>>,
   \* connection-level part (Conn.tla, property C08)
   strict |-> FALSE,          \* TRUE: the stream is known to be legal, keep judging after a close frame
   ownCloses |-> 0,           \* close frames written by close() or as the automatic reply
   explicitCloses |-> 0,      \* send_close() calls of the application
   tclosed |-> FALSE,         \* the transport has been closed
   callT |-> 0, closeTimeout |-> 0, closing |-> FALSE]

(***************************************************************************)
(* Frame-level meaning (what a complete frame does), message-level calls.  *)
(***************************************************************************)
ProcMsg(s, f) ==
  LET base == [s EXCEPT !.fpos = f.next, !.nframes = @ + 1]
      ff == FrameFaults(f, s.skipUtf8)
  IN
  IF ff # {} THEN [base EXCEPT !.due = <<DRaise("Protocol")>>, !.faults = Append(@, <<s.nframes + 1, ff>>)]
  ELSE IF f.op \in DataOps THEN
    IF s.recving = 0 /\ f.op = OpCont
      THEN [base EXCEPT !.due = <<DRaise("Protocol")>>, !.faults = Append(@, <<s.nframes + 1, {"cont_without_message"}>>)]
    ELSE IF s.recving # 0 /\ f.op # OpCont
      THEN [base EXCEPT !.due = <<DRaise("Protocol")>>, !.faults = Append(@, <<s.nframes + 1, {"data_inside_message"}>>)]
    ELSE
      LET cop   == IF s.hasCont THEN s.contOp ELSE f.op
          cdata == IF s.hasCont THEN s.contData \o f.payload ELSE f.payload
          rcv   == IF f.fin = 1 THEN 0
                   ELSE IF ~s.hasCont /\ f.op # OpCont THEN f.op ELSE s.recving
      IN IF f.fin = 1 \/ s.fireCont
         THEN LET cleared == [base EXCEPT !.hasCont = FALSE, !.contOp = 0, !.contData = <<>>, !.recving = rcv]
              IN IF ~s.fireCont /\ cop = OpText /\ ~s.skipUtf8 /\ ~WellFormedUtf8(cdata)
                 THEN [cleared EXCEPT !.due = <<DRaise("Payload")>>]
                 ELSE [cleared EXCEPT !.due = <<DRet(cop, f.fin, cdata)>>]
         ELSE [base EXCEPT !.hasCont = TRUE, !.contOp = cop, !.contData = cdata, !.recving = rcv]
  ELSE IF f.op = OpPing THEN
    [base EXCEPT !.pings = Append(@, f.payload),
                 !.due = <<DSend(OpPong, f.payload)>> \o
                         (IF s.call.control THEN <<DRet(OpPing, 1, f.payload)>> ELSE <<>>)]
  ELSE IF f.op = OpPong THEN
    [base EXCEPT !.due = IF s.call.control THEN <<DRet(OpPong, 1, f.payload)>> ELSE <<>>]
  ELSE \* close: answered once (C08); a reply after the application's own send_close() is tolerated
    IF s.ownCloses = 0
    THEN [base EXCEPT !.connected = FALSE, !.closeReplies = @ + 1, !.ownCloses = @ + 1,
                      !.due = <<[DSend(OpClose, CloseBody(1000, <<>>)) EXCEPT !.opt = s.explicitCloses > 0],
                                DRet(OpClose, 1, f.payload)>>]
    ELSE [base EXCEPT !.connected = FALSE, !.due = <<DRet(OpClose, 1, f.payload)>>]

(* recv_frame(): the raw call - decoding and frame legality only *)
ProcRaw(s, f) ==
  LET base == [s EXCEPT !.fpos = f.next, !.nframes = @ + 1]
      ff == FrameFaults(f, s.skipUtf8)
  IN IF ff # {} THEN [base EXCEPT !.due = <<DRaise("Protocol")>>, !.faults = Append(@, <<s.nframes + 1, ff>>)]
     ELSE [base EXCEPT !.due = <<DRet(f.op, f.fin, f.payload)>>]

Proc(s, f) == IF s.call.api = "recv_frame" THEN ProcRaw(s, f) ELSE ProcMsg(s, f)

(* Process every frame that has completely arrived, in order, until something observable is due *)
RecvApis == {"recv", "recv_data", "recv_data_frame", "recv_frame"}
RECURSIVE Drain(_)
Drain(s) ==
  IF ~s.call.active \/ s.call.api \notin RecvApis \/ s.due # <<>> \/ ~s.sockOpen THEN s
  ELSE LET f == ParseL(s.stream, s.fpos, s.taken)
       IN IF ~f.ok THEN s ELSE Drain(Proc(s, f))

(* how many more bytes the frame at fpos needs before its next stage is known (0 = unknown: huge) *)
Shortage(s) ==
  LET f == ParseL(s.stream, s.fpos, s.taken) IN
    IF f.ok \/ f.huge THEN 0 ELSE f.need - s.taken

(***************************************************************************)
(* What each public call hands back for a due "ret", by API.               *)
(*   recv_data_frame: (opcode, frame) -> op, frame.fin, frame.data         *)
(*   recv_data      : (opcode, data)  -> op, data                          *)
(*   recv           : str for text, bytes for binary, "" otherwise         *)
(*   recv_frame     : frame           -> frame.opcode, fin, data           *)
(***************************************************************************)
RetMatches(api, d, e) ==
  CASE api = "recv_data_frame" -> e.op = d.op /\ e.fin = d.fin /\ e.data = d.data
    [] api = "recv_frame"      -> e.op = d.op /\ e.fin = d.fin /\ e.data = d.data
    [] api = "recv_data"       -> e.op = d.op /\ e.data = d.data
    [] api = "recv"            -> IF d.op = OpText THEN e.kind = "text" /\ e.data = d.data
                                  ELSE IF d.op = OpBin THEN e.kind = "bytes" /\ e.data = d.data
                                  ELSE e.kind = "text" /\ e.data = <<>>
    [] OTHER -> FALSE

\* recv() turns text into str: impossible for ill-formed text (only reachable with validation
\* off or per-fragment delivery): then any documented exception is acceptable (C17)
RecvCannotDecode(s, d) == s.call.api = "recv" /\ d.k = "ret" /\ d.op = OpText /\ ~WellFormedUtf8(d.data)

Documented == {"WebSocketException", "WebSocketProtocolException", "WebSocketPayloadException",
               "WebSocketConnectionClosedException", "WebSocketTimeoutException",
               "WebSocketProxyException", "WebSocketBadStatusException", "WebSocketAddressException"}
ClsOf(c) == CASE c = "Protocol" -> "WebSocketProtocolException"
              [] c = "Payload"  -> "WebSocketPayloadException"
              [] c = "Timeout"  -> "WebSocketTimeoutException"
              [] c = "Closed"   -> "WebSocketConnectionClosedException"
              [] OTHER -> c

\* an optional write that did not happen is dropped when the next obligation is looked at
SkipOpt(s) == IF s.due # <<>> /\ Head(s.due).opt THEN [s EXCEPT !.due = Tail(@), !.ownCloses = @ - 1, !.closeReplies = @ - 1] ELSE s

Res(s, ok, why) == [s |-> s, ok |-> ok, why |-> why]
Fail(s, why) == Res(s, FALSE, why)
Obs(s, e) == [s EXCEPT !.hist = Append(@, e)]

(***************************************************************************)
(* Events.  e.ev in call / trecv / ttimeout / teof / terr / tsend / ret /  *)
(* raise / hang.  Fields: see vf/recvworld.py (the projection).            *)
(***************************************************************************)
StepCall(s, e) ==
  IF s.call.active THEN Fail(s, "harness.nested_call")
  ELSE LET s1 == [s EXCEPT !.call = [active |-> TRUE, api |-> e.api, control |-> e.control]]
       IN IF ~s.sockOpen THEN Res([s1 EXCEPT !.due = <<DRaise("Closed")>>], TRUE, "")
          ELSE IF s.failed THEN Res(s1, TRUE, "")
          ELSE Res(Drain(s1), TRUE, "")

StepTRecv(s, e) ==
  IF e.req > 16384 THEN Fail(s, "C17.request_bounded")
  ELSE IF ~s.call.active THEN Fail(s, "C08.transport_touched_outside_call")
  ELSE IF ~s.sockOpen THEN Fail(s, "C08.transport_touched_after_close")
  ELSE IF e.got < 1 \/ e.got > e.req \/ s.taken + e.got > Len(s.stream) THEN Fail(s, "harness.bad_trecv")
  ELSE IF e.pos # s.taken THEN Fail(s, "C03.bytes_consumed_outside_the_calls")
  ELSE IF s.failed THEN Res([s EXCEPT !.taken = @ + e.got], TRUE, "")
  ELSE IF s.due # <<>> THEN
       Fail(s, IF Head(s.due).k = "send" /\ Head(s.due).op = OpPong THEN "C07.pong_before_reading_on"
               ELSE IF Head(s.due).k = "send" THEN "C08.close_reply_before_reading_on"
               ELSE "C03.outcome_delayed_by_read")
  ELSE Res(Drain([s EXCEPT !.taken = @ + e.got]), TRUE, "")

StepTimeout(s, e) ==
  IF ~s.call.active \/ ~s.sockOpen THEN Fail(s, "C08.transport_touched_outside_call")
  ELSE IF "pos" \in DOMAIN e /\ e.pos # s.taken THEN Fail(s, "C03.bytes_consumed_outside_the_calls")
  ELSE IF s.failed THEN Res([s EXCEPT !.due = <<DRaise("Timeout")>>], TRUE, "")
  ELSE IF s.due # <<>> THEN Fail(s, "C03.outcome_delayed_by_read")
  ELSE Res([s EXCEPT !.due = <<DRaise("Timeout")>>], TRUE, "")

\* non-blocking transport (timeout 0): "would block" is the transport's own error, nothing is consumed or lost
StepAgain(s, e) ==
  IF ~s.call.active \/ ~s.sockOpen THEN Fail(s, "C08.transport_touched_outside_call")
  ELSE IF "pos" \in DOMAIN e /\ e.pos # s.taken THEN Fail(s, "C03.bytes_consumed_outside_the_calls")
  ELSE IF ~s.failed /\ s.due # <<>> THEN Fail(s, "C03.outcome_delayed_by_read")
  ELSE Res([s EXCEPT !.due = <<DRaise("Again")>>], TRUE, "")

StepEof(s, e) ==
  IF ~s.call.active \/ ~s.sockOpen THEN Fail(s, "C08.transport_touched_outside_call")
  ELSE IF "pos" \in DOMAIN e /\ e.pos # s.taken THEN Fail(s, "C03.bytes_consumed_outside_the_calls")
  ELSE IF ~s.failed /\ s.due # <<>> THEN Fail(s, "C03.outcome_delayed_by_read")
  ELSE Res([s EXCEPT !.due = <<DRaise("Closed")>>, !.eof = TRUE, !.sockOpen = FALSE, !.connected = FALSE], TRUE, "")

StepTErr(s, e) ==
  IF ~s.call.active \/ ~s.sockOpen THEN Fail(s, "C08.transport_touched_outside_call")
  ELSE IF "pos" \in DOMAIN e /\ e.pos # s.taken THEN Fail(s, "C03.bytes_consumed_outside_the_calls")
  ELSE IF ~s.failed /\ s.due # <<>> THEN Fail(s, "C03.outcome_delayed_by_read")
  ELSE Res([s EXCEPT !.due = <<DRaise("Transport")>>], TRUE, "")

\* the clause for "an illegal frame was treated as legal": an ill-formed close reason belongs to C06
AcceptedClause(s) ==
  IF s.faults # <<>> /\ s.faults[Len(s.faults)][2] = {"close_reason_utf8"} THEN "C06.ill_formed_close_reason_accepted"
  ELSE "C05.illegal_frame_accepted"

StepTSend(s, e) ==
  LET f == Parse(e.bytes, 1) IN
  IF ~s.call.active THEN Fail(s, "C07.write_outside_call")
  ELSE IF s.failed THEN Res(s, TRUE, "")
  ELSE IF s.due # <<>> /\ Head(s.due).k = "raise" /\ Head(s.due).cls = "Protocol" THEN Fail(s, AcceptedClause(s))
  ELSE IF s.due = <<>> \/ Head(s.due).k # "send" THEN
       Fail(s, IF f.ok /\ f.op = OpPong THEN "C07.unsolicited_or_duplicate_pong"
               ELSE IF f.ok /\ f.op = OpClose THEN "C08.more_than_one_close_frame_on_own_initiative" ELSE "C07.unsolicited_write")
  ELSE LET d == Head(s.due) IN
       IF ~f.ok \/ f.next # Len(e.bytes) + 1 THEN Fail(s, "C01.reply_not_one_whole_frame")
       ELSE IF f.masked # 1 \/ f.rsv # 0 \/ f.fin # 1 \/ f.form # (IF f.len <= 125 THEN 0 ELSE 2)
            THEN Fail(s, "C01.reply_frame_malformed")
       ELSE IF f.op # d.op THEN Fail(s, IF d.op = OpPong THEN "C07.reply_is_not_a_pong" ELSE "C08.reply_is_not_a_close")
       ELSE IF f.payload # d.data THEN Fail(s, IF d.op = OpPong THEN "C07.pong_payload_differs" ELSE "C08.close_reply_body")
       ELSE LET s1 == [s EXCEPT !.due = Tail(@),
                                !.pongs = IF d.op = OpPong THEN Append(@, f.payload) ELSE @]
            IN Res(Drain(Obs(s1, <<"send", d.op, d.data>>)), TRUE, "")

\* the transport refused a write (the peer is gone).  A close reply that cannot be written is given up - the peer's
\* close frame is still reported; any other frame that cannot be written ends the call with the transport's error.
StepTSendFail(s, e) ==
  IF ~s.call.active THEN Fail(s, "C07.write_outside_call")
  ELSE IF s.failed THEN Res(s, TRUE, "")
  ELSE IF s.due = <<>> \/ Head(s.due).k # "send" THEN Fail(s, "C07.unsolicited_write")
  ELSE IF Head(s.due).op = OpClose THEN Res(Drain([s EXCEPT !.due = Tail(@)]), TRUE, "")
  ELSE Res([s EXCEPT !.due = <<DRaise("Transport")>>], TRUE, "")

EndCall(s) == [s EXCEPT !.call = NoCall, !.due = <<>>]

StepRet(s0, e) ==
  LET s == SkipOpt(s0) IN
  IF ~s.call.active THEN Fail(s, "harness.ret_without_call")
  ELSE IF s.failed THEN Res(EndCall(s), TRUE, "")
  ELSE IF s.due = <<>> THEN
       Fail(s, "C02.returned_without_a_complete_frame")
  ELSE LET d == Head(s.due) IN
       IF d.k = "send" THEN Fail(s, IF d.op = OpPong THEN "C07.ping_not_answered" ELSE "C08.close_not_answered")
       ELSE IF d.k = "raise" THEN
            Fail(s, CASE d.cls = "Protocol" -> AcceptedClause(s)
                      [] d.cls = "Payload"  -> "C06.ill_formed_text_delivered"
                      [] d.cls = "Closed"   -> "C08.returned_after_connection_lost"
                      [] d.cls = "Timeout"  -> "C03.returned_despite_timeout"
                      [] OTHER -> "C03.returned_instead_of_raising")
       ELSE IF RecvCannotDecode(s, d) THEN Fail(s, "C06.ill_formed_text_delivered")
       ELSE IF ~RetMatches(s.call.api, d, e) THEN
            Fail(s, IF d.op \in {OpText, OpBin} /\ e.op = d.op /\ ~s.fireCont /\ s.call.api # "recv_frame"
                       /\ d.fin = 1 /\ s.nframes > 1
                    THEN "C04.reassembled_message_differs" ELSE "C02.decoded_result_differs")
       ELSE IF e.connected # s.connected THEN Fail(s, "C08.connected_flag")
       ELSE LET s1 == EndCall(Obs(s, <<"ret", d.op, d.fin, d.data>>))
            IN Res([s1 EXCEPT !.failed = (d.op = OpClose /\ s.call.api # "recv_frame" /\ ~s.strict)], TRUE, "")

StepRaise(s, e) ==
  IF ~(e.doc \/ e.terr) THEN Fail(s, "C17.undocumented_exception")
  ELSE IF ~s.call.active THEN Fail(s, "harness.raise_without_call")
  ELSE IF s.failed THEN Res(EndCall(s), TRUE, "")
  ELSE IF s.due = <<>> THEN
       Fail(s, IF e.cls = "WebSocketProtocolException" THEN "C05.legal_frame_rejected"
               ELSE IF e.cls = "WebSocketPayloadException" THEN "C06.well_formed_text_rejected"
               ELSE "C03.spurious_exception")
  ELSE LET d == Head(s.due) IN
       IF d.k = "send" THEN Fail(s, IF d.op = OpPong THEN "C07.ping_not_answered" ELSE "C08.close_not_answered")
       ELSE IF d.k = "ret" /\ RecvCannotDecode(s, d) THEN
            \* (recv() cannot hand out text it cannot decode: the frame counts as observed, the caller may read on)
            IF e.doc THEN Res(EndCall(Obs(s, <<"ret", d.op, d.fin, d.data>>)), TRUE, "") ELSE Fail(s, "C17.undocumented_exception")
       ELSE IF d.k = "ret" THEN
            Fail(s, IF e.cls = "WebSocketProtocolException" THEN "C05.legal_frame_rejected"
                    ELSE IF e.cls = "WebSocketPayloadException" THEN "C06.well_formed_text_rejected"
                    ELSE IF d.op = OpClose THEN "C08.peers_close_frame_not_reported"
                    ELSE "C03.spurious_exception")
       ELSE IF d.cls = "Again" THEN      \* would-block: the transport's own error, or reported as a timeout; nothing else
            IF e.terr \/ e.cls = "WebSocketTimeoutException" THEN Res(EndCall(s), TRUE, "") ELSE Fail(s, "C03.spurious_exception")
       ELSE IF d.cls = "Transport" THEN
            IF e.terr THEN Res(EndCall(s), TRUE, "") ELSE Fail(s, "C17.transport_error_remapped")
       ELSE IF e.cls # ClsOf(d.cls) THEN
            Fail(s, CASE d.cls = "Protocol" -> "C05.wrong_exception_for_illegal_frame"
                      [] d.cls = "Payload"  -> "C06.wrong_exception_for_ill_formed_text"
                      [] d.cls = "Timeout"  -> "C03.timeout_not_reported_as_timeout"
                      [] OTHER -> "C08.loss_not_reported_as_connection_closed")
       ELSE IF d.cls = "Closed" /\ ~(e.sock_none /\ ~e.connected /\ e.tclosed) THEN Fail(s, "C08.transport_not_released_on_loss")
       ELSE LET s1 == EndCall(Obs(s, <<"raise", d.cls>>))
            \* (after a protocol error RFC 6455 says nothing about what follows; a refused text message ends at a frame
            \*  boundary with the reassembly state cleared: an application that catches the error reads on normally)
            IN Res([s1 EXCEPT !.failed = (d.cls = "Protocol")], TRUE, "")

Step(s, e) ==
  CASE e.ev = "call"     -> StepCall(s, e)
    [] e.ev = "trecv"    -> StepTRecv(SkipOpt(s), e)
    [] e.ev = "ttimeout" -> StepTimeout(SkipOpt(s), e)
    [] e.ev = "tagain"   -> StepAgain(SkipOpt(s), e)
    [] e.ev = "teof"     -> StepEof(SkipOpt(s), e)
    [] e.ev = "terr"     -> StepTErr(SkipOpt(s), e)
    [] e.ev = "tsend"    -> StepTSend(s, e)
    [] e.ev = "tsendfail" -> StepTSendFail(s, e)
    [] e.ev = "ret"      -> StepRet(s, e)
    [] e.ev = "raise"    -> StepRaise(SkipOpt(s), e)
    [] e.ev = "hang"     -> Fail(s, "C17.no_progress")
    [] e.ev = "connect_failed" -> Fail(s, "C03.valid_handshake_response_refused")    \* (the head is valid in every scenario that runs the handshake)
    [] e.ev = "tbad"     -> Fail(s, "C08.transport_touched_after_close")
    [] OTHER             -> Fail(s, "harness.unknown_event")

(***************************************************************************)
(* The frame-level oracle: what a caller must observe for a stream, as a   *)
(* function of the complete frames only - no transport, no stages, no      *)
(* timeouts.  C03 is "the byte-level machine never deviates from it".      *)
(***************************************************************************)
RECURSIVE OracleFrom(_, _, _, _)
\* s: state record used only for its reassembly part; fs: remaining frames; api/control fixed
OracleFrom(s, fs, api, control) ==
  IF fs = <<>> \/ s.failed THEN <<>>
  ELSE LET s0 == [s EXCEPT !.call = [active |-> TRUE, api |-> api, control |-> control], !.due = <<>>]
           s1 == Proc(s0, Head(fs))
           outs == [i \in 1..Len(s1.due) |->
                      LET d == s1.due[i] IN
                        IF d.k = "send" THEN <<"send", d.op, d.data>>
                        ELSE IF d.k = "ret" THEN <<"ret", d.op, d.fin, d.data>>
                        ELSE <<"raise", d.cls>>]
           endsInFailure == s1.due # <<>> /\
                            LET l == s1.due[Len(s1.due)] IN
                              (l.k = "raise" /\ l.cls = "Protocol")
                              \/ (l.k = "ret" /\ l.op = OpClose /\ api # "recv_frame")
       IN outs \o OracleFrom([s1 EXCEPT !.failed = endsInFailure], Tail(fs), api, control)

Oracle(stream, fireCont, skipUtf8, api, control) ==
  OracleFrom(InitState(stream, fireCont, skipUtf8), Frames(stream), api, control)

IsPrefixOf(a, b) == Len(a) <= Len(b) /\ SubSeq(b, 1, Len(a)) = a

(***************************************************************************)
(* A second, independent statement of reassembly (C04): the messages of a  *)
(* legal frame sequence, ignoring control frames.                          *)
(***************************************************************************)
RECURSIVE MsgsOf(_, _, _)
MsgsOf(fs, curOp, curData) ==
  IF fs = <<>> THEN <<>>
  ELSE LET f == Head(fs) IN
    IF f.op \in CtlOps THEN MsgsOf(Tail(fs), curOp, curData)
    ELSE IF f.fin = 1 THEN <<<<IF f.op = OpCont THEN curOp ELSE f.op, curData \o f.payload>>>> \o MsgsOf(Tail(fs), 0, <<>>)
    ELSE MsgsOf(Tail(fs), IF f.op = OpCont THEN curOp ELSE f.op, curData \o f.payload)

DeliveredMsgs(hist) ==
  LET idx == {i \in 1..Len(hist) : hist[i][1] = "ret" /\ hist[i][2] \in {OpText, OpBin}}
      F[i \in 0..Len(hist)] == IF i = 0 THEN <<>>
                               ELSE IF i \in idx THEN Append(F[i - 1], <<hist[i][2], hist[i][4]>>) ELSE F[i - 1]
  IN F[Len(hist)]
=============================================================================
