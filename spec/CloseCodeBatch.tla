--------------------------- MODULE CloseCodeBatch ---------------------------
(* C05, the "all 65536 close status codes" clause: one pass over what the real *)
(* parser answered for a close frame carrying each code.                       *)
EXTENDS Codec, TLC, Json, IOUtils, VfEmit
Trace == ndJsonDeserialize(IOEnv.TRACE_FILE)
Ok(e) == IF e.code \in WireCloseCodes THEN e.result = "accepted" ELSE e.result = "protocol"
Bad == {i \in 1..Len(Trace) : ~Ok(Trace[i])}
ASSUME EmitJson("BAD", <<Bad, Len(Trace)>>)
VARIABLE x
Init == x = 0
Next == UNCHANGED x
=============================================================================
