------------------------------- MODULE CookieMC -------------------------------
(* All histories up to a bound: the jar machine agrees with a history-based     *)
(* definition ("latest Set-Cookie for this (domain, name) wins"), and nothing   *)
(* is ever sent outside the domain that set it.                                 *)
EXTENDS Cookie
CONSTANTS Domains, Hosts, MaxSteps
VARIABLES jar, hist, lastPairs, lastHost, prevJar
vars == <<jar, hist, lastPairs, lastHost, prevJar>>
Names == {"k", "m"}
Values == {"1", "2"}
CookieLists == {<<<<n, v>>>> : n \in Names, v \in Values} \cup {<<<<"k", "1">>, <<"m", "2">>>>, <<<<"k", "1">>, <<"k", "2">>>>}

Init == jar = {} /\ hist = <<>> /\ lastPairs = <<>> /\ lastHost = <<>> /\ prevJar = {}
Next == /\ Len(hist) < MaxSteps
        /\ \E h \in Hosts, d \in Domains \cup {<<>>}, cs \in CookieLists :
             /\ lastPairs' = Pairs(jar, h) /\ prevJar' = jar
             /\ lastHost' = h
             /\ jar' = Store(jar, d, cs)
             /\ hist' = Append(hist, [host |-> h, domain |-> d, cookies |-> cs])

\* history-based definition: value of (d, n) = the last entry for n in the last response naming d
LatestIn(h, d, n) ==
  LET idx == {i \in 1..Len(h) : h[i].domain = d /\ \E j \in 1..Len(h[i].cookies) : h[i].cookies[j][1] = n}
  IN IF idx = {} THEN "" ELSE
     LET i == CHOOSE i \in idx : \A k \in idx : k <= i
         cs == h[i].cookies
         j == CHOOSE j \in 1..Len(cs) : cs[j][1] = n /\ \A k \in (j+1)..Len(cs) : cs[k][1] # n
     IN cs[j][2]
JarFromHistory == {<<d, n, LatestIn(hist, d, n)>> : d \in Domains, n \in Names} \ {<<d, n, "">> : d \in Domains, n \in Names}
LatestWins == jar = JarFromHistory
OnePerName == \A x, y \in jar : (x[1] = y[1] /\ x[2] = y[2]) => x = y
NoDomainNotKept == \A x \in jar : x[1] # <<>>
\* the header sent in the last step only contains cookies of covering domains, and all of them
NeverOutsideDomain ==
  \A p \in ToSet(lastPairs) : \E x \in prevJar : Covers(x[1], lastHost) /\ p = x[2] \o "=" \o x[3]
ExactlyCovered ==
  ~Ambiguous(prevJar, lastHost) =>
     \A x \in prevJar : Covers(x[1], lastHost) => (x[2] \o "=" \o x[3]) \in ToSet(lastPairs)
W_Sent == lastPairs = <<>>
=============================================================================
