--------------------------------- MODULE Tls ---------------------------------
(***************************************************************************)
(* Which checks a wss:// connection performs (C11).  A configuration is    *)
(*   scheme      "ws" | "wss"                                              *)
(*   certReqs    "absent" | "none" | "optional" | "required"               *)
(*   checkHost   "absent" | "true" | "false"                               *)
(*   caOpt       "absent" | "file" | "path"      (the test CA, by option)  *)
(*   caEnv       "unset" | "file" | "dir"        (WEBSOCKET_CLIENT_CA_BUNDLE) *)
(*   context     "absent" | "permissive" | "strict"   (caller's SSLContext) *)
(*   serverName  "absent" | "right" | "wrong"    (server_hostname option)   *)
(*   tunnel      BOOLEAN                          (through an HTTP proxy)   *)
(*   sslVersion  "absent" | "tls_client" | "tls"  (ssl_version option)      *)
(*   prior       BOOLEAN   (an earlier connection with the same object and  *)
(*               option dict went to another host: must not matter)         *)
(* and a server certificate is  [trusted (signed by the test CA), name      *)
(* ("good" = the URL's host | "other")].  The URL host is good.test.        *)
(***************************************************************************)
EXTENDS Naturals, Sequences, FiniteSets, TLC

Cfgs == [scheme : {"ws", "wss"}, certReqs : {"absent", "none", "optional", "required"},
         checkHost : {"absent", "true", "false"}, caOpt : {"absent", "file", "path"}, caEnv : {"unset", "file", "dir"},
         context : {"absent", "permissive", "strict"}, serverName : {"absent", "right", "wrong"}, tunnel : BOOLEAN,
         sslVersion : {"absent", "tls_client", "tls"},    \* ssl_version option: selects the protocol, no check depends on it
         prior : BOOLEAN]   \* the same object and option dict were used for an earlier wss connection to another host
Certs == [trusted : BOOLEAN, name : {"good", "other"}]

\* contradictory request (no verification but host name check): outside the space, Python's ssl refuses it
Contradictory(c) == c.context = "absent" /\ c.certReqs = "none" /\ c.checkHost = "true"

Wrapped(c) == c.scheme = "wss"
\* the name the certificate is matched against and that is sent as SNI
WantedName(c) == IF c.serverName = "wrong" THEN "other" ELSE "good"
VerifyChain(c) ==
  CASE c.context = "permissive" -> FALSE
    [] c.context = "strict" -> TRUE
    [] OTHER -> c.certReqs # "none"
CheckName(c) ==
  CASE c.context = "permissive" -> FALSE
    [] c.context = "strict" -> TRUE
    [] OTHER -> VerifyChain(c) /\ c.checkHost # "false"
\* is the test CA among the trust anchors?  (the system store never contains it)
TestCaTrusted(c) ==
  CASE c.context = "strict" -> TRUE
    [] c.context = "permissive" -> FALSE
    [] OTHER -> c.caOpt # "absent" \/ c.caEnv # "unset"

Outcome(c, cert) ==
  IF ~Wrapped(c) THEN "plain"
  ELSE IF VerifyChain(c) /\ ~(cert.trusted /\ TestCaTrusted(c)) THEN "tls_rejected"
  ELSE IF CheckName(c) /\ cert.name # WantedName(c) THEN "tls_rejected"
  ELSE "established"

(* meta-properties of the decision table, checked by TLC over the whole space (TlsMC) *)
Default(c) == c.certReqs = "absent" /\ c.checkHost = "absent" /\ c.context = "absent" /\ c.serverName = "absent"
DefaultStrict == \A c \in Cfgs : (Wrapped(c) /\ Default(c)) => (VerifyChain(c) /\ CheckName(c) /\ WantedName(c) = "good")
UntrustedRejectedByDefault ==
  \A c \in Cfgs, cert \in Certs : (Wrapped(c) /\ Default(c) /\ (~cert.trusted \/ cert.name # "good")) => Outcome(c, cert) = "tls_rejected"
\* a bad certificate is only accepted when a documented option weakened exactly the check it fails
OnlyDocumentedWeaken ==
  \A c \in Cfgs, cert \in Certs :
     (~Contradictory(c) /\ Outcome(c, cert) = "established") =>
        /\ (cert.trusted /\ TestCaTrusted(c)) \/ c.certReqs = "none" \/ c.context = "permissive"
        /\ (cert.name = "good") \/ c.checkHost = "false" \/ c.certReqs = "none" \/ c.context = "permissive" \/ c.serverName = "wrong"
\* each option touches only its own check
CaOptionsDoNotDisableNameCheck ==
  \A c \in Cfgs : \A o \in {"absent", "file", "path"}, e \in {"unset", "file", "dir"} :
     CheckName([c EXCEPT !.caOpt = o, !.caEnv = e]) = CheckName(c) /\ VerifyChain([c EXCEPT !.caOpt = o, !.caEnv = e]) = VerifyChain(c)
CheckHostnameFalseKeepsChain ==
  \A c \in Cfgs : c.context = "absent" => VerifyChain([c EXCEPT !.checkHost = "false"]) = VerifyChain(c)
ServerNameKeepsChain == \A c \in Cfgs, n \in {"absent", "right", "wrong"} : VerifyChain([c EXCEPT !.serverName = n]) = VerifyChain(c)
TunnelChangesNothing == \A c \in Cfgs, cert \in Certs : Outcome([c EXCEPT !.tunnel = TRUE], cert) = Outcome([c EXCEPT !.tunnel = FALSE], cert)
ProtocolChoiceChangesNothing ==
  \A c \in Cfgs, cert \in Certs, v \in {"absent", "tls_client", "tls"}, p \in BOOLEAN :
     Outcome([c EXCEPT !.sslVersion = v, !.prior = p], cert) = Outcome(c, cert)
WsNeverWrapped == \A c \in Cfgs, cert \in Certs : c.scheme = "ws" => Outcome(c, cert) = "plain"

(* e: [c, cert, outcome ("established" | "tls_rejected" | "plain" | other), firstByteTls, sni, wsSeenByServer,
       wsBeforeHandshake, connected, verifyMode, checkHostname (of the context actually used, when connected)] *)
(*  spelling: how the scheme was written ("lower" | "upper" | "mixed"): another spelling may be refused before anything
             is sent (ValueError), or be treated exactly like the lower-case scheme - never anything in between
    via: "direct" | "redirect" (the wss URL was reached by a redirect from ws:// on the same host and port);
    plainFollowup: the client went on talking on the plaintext connection that delivered the redirect *)
TlsFaults0(e) ==
  LET want == Outcome(e.c, e.cert) IN
  (IF e.outcome # want THEN
      {IF want = "tls_rejected" THEN "C11.unverified_peer_accepted"
       ELSE IF want = "established" THEN "C11.acceptable_peer_rejected"
       ELSE "C11.ws_target_wrapped_or_failed"} ELSE {})
  \cup (IF Wrapped(e.c) /\ ~e.firstByteTls THEN {"C11.stream_not_tls_from_first_byte"} ELSE {})
  \cup (IF ~Wrapped(e.c) /\ e.firstByteTls THEN {"C11.ws_target_wrapped_or_failed"} ELSE {})
  \cup (IF Wrapped(e.c) /\ e.wsBeforeHandshake THEN {"C11.websocket_data_before_tls_verification"} ELSE {})
  \cup (IF want = "tls_rejected" /\ e.wsSeenByServer THEN {"C11.websocket_data_sent_to_rejected_peer"} ELSE {})
  \cup (IF Wrapped(e.c) /\ e.sni # "" /\ e.sni # WantedName(e.c) THEN {"C11.sni_is_not_the_requested_name"} ELSE {})
  \cup (IF Wrapped(e.c) /\ e.plainFollowup THEN {"C11.wss_target_of_a_redirect_served_on_the_plaintext_connection"} ELSE {})

TlsFaults(e) ==
  IF e.spelling # "lower" /\ e.outcome = "refused" /\ ~e.anythingSent THEN {} ELSE TlsFaults0(e)
=============================================================================
