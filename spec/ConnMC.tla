-------------------------------- MODULE ConnMC --------------------------------
(***************************************************************************)
(* All call sequences up to a bound over {send, ping, recv, close(ok/bad),  *)
(* send_close, shutdown} against every server script: the connection        *)
(* machine never writes a second close frame of its own, never touches a    *)
(* released transport, always leaves close() with the transport released    *)
(* and within the timeout.                                                  *)
(***************************************************************************)
EXTENDS Conn
CONSTANTS Scripts, CallNames, MaxCalls
VARIABLES st, ncalls, now, eofAfter
vars == <<st, ncalls, now, eofAfter>>
Key0 == <<17, 34, 51, 68>>
Min(a, b) == IF a < b THEN a ELSE b

CallEvent(c) ==
  CASE c = "send"  -> [ev |-> "call", api |-> "send", t |-> now, control |-> FALSE, op |-> 1, payload |-> <<104>>, status |-> 0, reason |-> <<>>, timeout |-> 0]
    [] c = "ping"  -> [ev |-> "call", api |-> "ping", t |-> now, control |-> FALSE, op |-> 9, payload |-> <<>>, status |-> 0, reason |-> <<>>, timeout |-> 0]
    [] c = "recv"  -> [ev |-> "call", api |-> "recv_data_frame", t |-> now, control |-> TRUE, op |-> 0, payload |-> <<>>, status |-> 0, reason |-> <<>>, timeout |-> 0]
    [] c = "close" -> [ev |-> "call", api |-> "close", t |-> now, control |-> FALSE, op |-> 0, payload |-> <<>>, status |-> 1000, reason |-> <<98>>, timeout |-> 1000]
    [] c = "close_bad" -> [ev |-> "call", api |-> "close", t |-> now, control |-> FALSE, op |-> 0, payload |-> <<>>, status |-> 70000, reason |-> <<>>, timeout |-> 1000]
    [] c = "send_close" -> [ev |-> "call", api |-> "send_close", t |-> now, control |-> FALSE, op |-> 0, payload |-> <<>>, status |-> 1001, reason |-> <<>>, timeout |-> 0]
    [] c = "settimeout" -> [ev |-> "call", api |-> "settimeout", t |-> now, control |-> FALSE, op |-> 0, payload |-> <<>>, status |-> 0, reason |-> <<>>, timeout |-> 0, value |-> 5000]
    [] c = "gettimeout" -> [ev |-> "call", api |-> "gettimeout", t |-> now, control |-> FALSE, op |-> 0, payload |-> <<>>, status |-> 0, reason |-> <<>>, timeout |-> 0, value |-> 0]
    [] c = "abort" -> [ev |-> "call", api |-> "abort", t |-> now, control |-> FALSE, op |-> 0, payload |-> <<>>, status |-> 0, reason |-> <<>>, timeout |-> 0, value |-> 0]
    [] c = "shutdown" -> [ev |-> "call", api |-> "shutdown", t |-> now, control |-> FALSE, op |-> 0, payload |-> <<>>, status |-> 0, reason |-> <<>>, timeout |-> 0]

Flags(s) == [connected |-> s.connected, sock_none |-> ~s.sockOpen, tclosed |-> s.tclosed]

OutEvent(s) ==
  LET d == Head(s.due) IN
  CASE d.k = "send" -> [ev |-> "tsend", bytes |-> ClientFrame(1, d.op, d.data, Key0)]
    [] d.k = "tclose" -> [ev |-> "tclose"]
    [] d.k = "tsettimeout" -> [ev |-> "tsettimeout", value |-> d.op]
    [] d.k = "tshutdown" -> [ev |-> "tshutdown"]
    [] d.k = "retval" -> [ev |-> "ret", op |-> 99, fin |-> 99, data |-> <<>>, kind |-> "none", t |-> now, value |-> d.op,
                          connected |-> s.connected, sock_none |-> ~s.sockOpen]
    [] d.k = "ret" -> [ev |-> "ret", op |-> d.op, fin |-> d.fin, data |-> d.data, kind |-> "frame", t |-> now,
                       connected |-> s.connected, sock_none |-> ~s.sockOpen]
    [] d.k = "raise" -> [ev |-> "raise", cls |-> ClsOf(d.cls), doc |-> d.cls \notin {"ValueError", "Transport"}, terr |-> d.cls = "Transport", t |-> now,
                         connected |-> s.connected, sock_none |-> ~s.sockOpen, tclosed |-> s.tclosed \/ ~s.sockOpen]

\* releasing the transport on loss happens before the exception is seen
Events(s) ==
  IF s.due # <<>> /\ Head(s.due).k = "raise" /\ Head(s.due).cls = "Closed" /\ s.eof /\ ~s.tclosed
  THEN {[ev |-> "tclose"]}
  ELSE IF s.due # <<>> THEN {OutEvent(s)}
  ELSE IF ~s.call.active THEN
       IF ncalls < MaxCalls THEN {CallEvent(c) : c \in CallNames} ELSE {}
  ELSE IF s.closing THEN
       IF ~s.tclosed
       THEN (IF s.taken < Len(s.stream) THEN {[ev |-> "trecv", req |-> 2, got |-> Min(2, Len(s.stream) - s.taken), pos |-> s.taken]} ELSE {})
            \cup {[ev |-> "ttimeout", req |-> 2], [ev |-> "tclose"]}
            \cup (IF s.taken = Len(s.stream) /\ eofAfter THEN {[ev |-> "teof", req |-> 2]} ELSE {})
       ELSE {[ev |-> "ret", op |-> 99, fin |-> 99, data |-> <<>>, kind |-> "none", t |-> now, connected |-> FALSE, sock_none |-> TRUE]}
  ELSE \* a recv call waits for the transport
       LET short == Shortage(s)
           req == IF short = 0 THEN 1 ELSE Min(16384, short)
           avail == Len(s.stream) - s.taken
       IN IF s.aborted THEN {[ev |-> "teof", req |-> req]}      \* the transport was shut down: reads end at once
          ELSE (IF avail > 0 THEN {[ev |-> "trecv", req |-> req, got |-> Min(req, avail), pos |-> s.taken]} ELSE {})
               \cup (IF avail = 0 /\ eofAfter THEN {[ev |-> "teof", req |-> req]} ELSE {})
               \cup (IF avail = 0 /\ ~eofAfter THEN {[ev |-> "ttimeout", req |-> req]} ELSE {})

Init == /\ \E sc \in Scripts : st = ConnInit(sc[1]) /\ eofAfter = sc[2]
        /\ ncalls = 0 /\ now = 0
Next == \E e \in Events(st) :
          LET r == KStep(st, e) IN
            /\ r.ok /\ st' = r.s
            /\ ncalls' = IF e.ev = "call" THEN ncalls + 1 ELSE ncalls
            /\ now' = IF e.ev = "ttimeout" /\ st.closing THEN st.callT + st.closeTimeout
                      ELSE IF e.ev = "ttimeout" THEN now + 2000 ELSE now
            /\ eofAfter' = eofAfter
Spec == Init /\ [][Next]_vars

StepAccepts == \A e \in Events(st) : KStep(st, e).ok
OwnCloseFrames == Cardinality({i \in 1..Len(st.hist) : st.hist[i][1] = "send" /\ st.hist[i][2] = OpClose})
AtMostOneOwnClose == st.ownCloses <= 1 /\ OwnCloseFrames <= st.ownCloses + st.explicitCloses
ClosedIsClosed == ~st.sockOpen => \A e \in Events(st) : e.ev \in {"call", "raise", "ret", "tclose"}
ReleasedMeansClosedTransport == (~st.sockOpen /\ ~st.call.active) => st.tclosed
CloseAlwaysReleases == \A i \in 1..Len(st.hist) : st.hist[i] = <<"closed">> => (st.tclosed /\ ~st.connected)
NoStuck == Events(st) # {} \/ ncalls = MaxCalls \/ st.failed
W_Closed == ~(\E i \in 1..Len(st.hist) : st.hist[i] = <<"closed">>)
W_PeerCloseThenClose == ~(st.closeReplies = 1 /\ st.tclosed /\ ~st.eof)
=============================================================================
