-------------------------------- MODULE HttpMC --------------------------------
(* Meta-properties of the request definition itself over the component product:   *)
(* guards Http!Request against its own mistakes before it is used as the oracle.  *)
EXTENDS Http
VARIABLES t, o
vars == <<t, o>>
Targets == [scheme : {"ws", "wss"}, host : {"h.test", "::1", "10.0.0.1"}, v6 : BOOLEAN,
            port : {0, 1, 80, 443, 8080, 65535}, path : {"", "/", "/a/b"}, query : {"", "x=1"}]
Opts == [host : {"", "o.test:9"}, origin : {"", "https://o.test"}, suppressOrigin : BOOLEAN,
         subprotocols : {<<>>, <<"a">>, <<"a", "b">>}, cookie : {"", "k=v"},
         headerLines : {<<>>, <<"X-A: 1">>}, connection : {"", "Connection: keep-alive, Upgrade"},
         jarCookie : {"", "j=1"}]
Init == t \in {x \in Targets : x.v6 = (x.host = "::1")} /\ o \in Opts
Next == UNCHANGED vars
K == "a2V5a2V5a2V5a2V5a2V5a2U="
H == RequestHeaders(t, o, K)
HasPrefix(s, p) == Len(s) >= Len(p) /\ SubSeq(s, 1, Len(p)) = p
Named(n) == {h \in H : HasPrefix(h, n \o ":")}
ResourceAbsolute == HasPrefix(Resource(t), "/")
QueryKept == t.query # "" => Resource(t) = (IF t.path = "" THEN "/" ELSE t.path) \o "?" \o t.query
MandatoryOnce == /\ Cardinality(Named("Upgrade")) = 1 /\ Cardinality(Named("Host")) = 1
                 /\ Cardinality(Named("Sec-WebSocket-Key")) = 1 /\ Cardinality(Named("Sec-WebSocket-Version")) = 1
                 /\ Cardinality(Named("Connection")) = 1
OriginRule == Cardinality(Named("Origin")) = (IF o.suppressOrigin THEN 0 ELSE 1)
DefaultPortHidden == o.host = "" => (("Host: " \o Pack(t)) \in H <=> EffPort(t) \in {80, 443})
V6Bracketed == (t.v6 /\ o.host = "") => \E h \in Named("Host") : HasPrefix(h, "Host: [")
CookieRule == (Named("Cookie") = {}) <=> (o.cookie = "" /\ o.jarCookie = "")
CookieOrder == (o.cookie # "" /\ o.jarCookie # "") => ("Cookie: " \o o.jarCookie \o "; " \o o.cookie) \in H
=============================================================================
