------------------------------- MODULE TraceSend -------------------------------
(* Schedules of the real library (threads under the deterministic scheduler,      *)
(* short writes, chunked reads) validated against Send!SStep (C12).               *)
EXTENDS Send, Json, IOUtils, VfEmit
Trace == ndJsonDeserialize(IOEnv.TRACE_FILE)
VARIABLES l, st, dead, bad, nacc
tvars == <<l, st, dead, bad, nacc>>
TInit == l = 1 /\ st = SInit({}, <<>>) /\ dead = TRUE /\ bad = <<>> /\ nacc = 0
TNext ==
  /\ l <= Len(Trace)
  /\ l' = l + 1
  /\ LET e == Trace[l] IN
     IF e.ev = "begin"
     THEN st' = SInit({e.threads[i] : i \in 1..Len(e.threads)}, e.stream) /\ dead' = FALSE /\ bad' = bad /\ nacc' = nacc
     ELSE IF dead THEN UNCHANGED <<st, dead, bad, nacc>>
     ELSE LET r == SStep(st, e) IN
          IF r.ok THEN /\ st' = r.s /\ bad' = bad
                       /\ dead' = (e.ev = "end") /\ nacc' = IF e.ev = "end" THEN nacc + 1 ELSE nacc
          ELSE st' = st /\ dead' = TRUE /\ nacc' = nacc
               /\ bad' = Append(bad, [tid |-> e.tid, at |-> e.i, ev |-> e.ev, why |-> r.why])
TSpec == TInit /\ [][TNext]_tvars
TWire == dead \/ Cardinality({t \in st.threads : MidFrame(st.w[t])}) <= 1
Done == l = Len(Trace) + 1
Report == Done => EmitJson("VERDICT", [bad |-> bad, accepted |-> nacc, events |-> Len(Trace)])
=============================================================================
