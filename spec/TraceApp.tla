------------------------------- MODULE TraceApp -------------------------------
(* Traces of the real run_forever (deterministic scheduler, virtual time) judged  *)
(* by the monitor AppMon!MStep (C13-C16).                                         *)
EXTENDS AppMon, Json, IOUtils, VfEmit
Trace == ndJsonDeserialize(IOEnv.TRACE_FILE)
VARIABLES l, st, dead, bad, nacc
tvars == <<l, st, dead, bad, nacc>>
TInit == l = 1 /\ st = MInit /\ dead = TRUE /\ bad = <<>> /\ nacc = 0
TNext ==
  /\ l <= Len(Trace)
  /\ l' = l + 1
  /\ LET e == Trace[l] IN
     IF e.ev = "begin" THEN st' = MInit /\ dead' = FALSE /\ bad' = bad /\ nacc' = nacc
     ELSE IF e.ev = "end" THEN st' = st /\ dead' = TRUE /\ bad' = bad /\ nacc' = IF dead THEN nacc ELSE nacc + 1
     ELSE IF dead THEN UNCHANGED <<st, dead, bad, nacc>>
     ELSE LET r == MStep(st, e) IN
          IF r.ok THEN st' = r.s /\ UNCHANGED <<dead, bad, nacc>>
          ELSE st' = st /\ dead' = TRUE /\ nacc' = nacc
               /\ bad' = Append(bad, [tid |-> e.tid, at |-> e.i, ev |-> e.ev, why |-> r.why])
TSpec == TInit /\ [][TNext]_tvars
CloseAtMostOnce == dead \/ st.nclose <= 1
Done == l = Len(Trace) + 1
Report == Done => EmitJson("VERDICT", [bad |-> bad, accepted |-> nacc, events |-> Len(Trace)])
=============================================================================
