------------------------------- MODULE TraceApp -------------------------------
(* Traces of the real run_forever (deterministic scheduler, virtual time) judged  *)
(* by the monitor AppMon!MStep (C13-C16).                                         *)
EXTENDS AppMon, Json, IOUtils, VfEmit
Trace == ndJsonDeserialize(IOEnv.TRACE_FILE)
VARIABLES l, st, dead, bad, nacc, flt
tvars == <<l, st, dead, bad, nacc, flt>>
TInit == l = 1 /\ st = MInit /\ dead = TRUE /\ bad = <<>> /\ nacc = 0 /\ flt = FALSE
TNext ==
  /\ l <= Len(Trace)
  /\ l' = l + 1
  /\ LET e == Trace[l] IN
     IF e.ev = "begin" THEN st' = MInit /\ dead' = FALSE /\ bad' = bad /\ nacc' = nacc /\ flt' = FALSE
     ELSE IF e.ev = "end" THEN st' = st /\ dead' = TRUE /\ bad' = bad /\ nacc' = (IF dead \/ flt THEN nacc ELSE nacc + 1) /\ flt' = FALSE
     ELSE IF dead THEN UNCHANGED <<st, dead, bad, nacc, flt>>
     ELSE LET r == MStep(st, e) IN
          IF r.ok THEN st' = r.s /\ UNCHANGED <<dead, bad, nacc, flt>>
          ELSE /\ nacc' = nacc
               /\ bad' = Append(bad, [tid |-> e.tid, at |-> e.i, ev |-> e.ev, why |-> r.why])
               /\ IF r.why \in Recoverable /\ ~flt THEN st' = r.s /\ dead' = FALSE /\ flt' = TRUE   \* once per trace
                  ELSE st' = st /\ dead' = TRUE /\ flt' = flt
TSpec == TInit /\ [][TNext]_tvars
CloseAtMostOnce == dead \/ st.nclose <= 1
Done == l = Len(Trace) + 1
Report == Done => EmitJson("VERDICT", [bad |-> bad, accepted |-> nacc, events |-> Len(Trace)])
=============================================================================
