-------------------------------- MODULE Conn --------------------------------
(***************************************************************************)
(* The connection state machine of a connected WebSocket (C08): on top of  *)
(* the receive machine (Recv.tla) the calls send / ping / send_close /     *)
(* close(status, reason, timeout) / shutdown, the transport operations     *)
(* close and shutdown, and a clock (milliseconds of virtual time carried   *)
(* by the events) for the bounded wait inside close().                     *)
(*                                                                         *)
(*  - at most one close frame on the client's own initiative               *)
(*  - the close frame carries status and reason in the RFC encoding;       *)
(*    out-of-range statuses are refused before anything is written         *)
(*  - after close() returned or the connection was lost the transport is   *)
(*    released and every call raises connection-closed without touching it *)
(*  - close(timeout = t) returns within t                                  *)
(***************************************************************************)
EXTENDS Recv, Integers

ConnInit(stream) == [tmo |-> 2000, aborted |-> FALSE] @@ [InitState(stream, FALSE, FALSE) EXCEPT !.strict = TRUE]

DVoid == Due("ret", 99, 99, <<>>, "")
NewApis == {"send", "ping", "send_close", "close", "shutdown", "settimeout", "gettimeout", "abort"}
\* (settimeout / gettimeout / abort are beyond the listed properties: their clauses are named X08.* and are
\*  reported as drift of the specification's extended coverage, never as a violation of C08)

KCall(s, e) ==
  IF s.call.active THEN Fail(s, "harness.nested_call")
  ELSE LET s1 == [s EXCEPT !.call = [active |-> TRUE, api |-> e.api, control |-> FALSE], !.callT = e.t] IN
  CASE e.api \in {"send", "ping"} ->
         IF ~s.sockOpen THEN Res([s1 EXCEPT !.due = <<DRaise("Closed")>>], TRUE, "")
         ELSE IF s.aborted THEN Res([s1 EXCEPT !.due = <<DRaise("Transport")>>], TRUE, "")   \* the transport was shut down by abort()
         ELSE Res([s1 EXCEPT !.due = <<DSend(e.op, e.payload), DVoid>>], TRUE, "")
    [] e.api = "send_close" ->
         IF e.status < 0 \/ e.status > 65535 THEN Res([s1 EXCEPT !.due = <<DRaise("ValueError")>>], TRUE, "")
         ELSE IF ~s.sockOpen THEN Res([s1 EXCEPT !.due = <<DRaise("Closed")>>, !.connected = FALSE], TRUE, "")
         ELSE IF s.aborted THEN Res([s1 EXCEPT !.due = <<DRaise("Transport")>>, !.connected = FALSE], TRUE, "")
         ELSE Res([s1 EXCEPT !.connected = FALSE, !.explicitCloses = @ + 1,
                             !.due = <<DSend(OpClose, CloseBody(e.status, e.reason)), DVoid>>], TRUE, "")
    [] e.api = "shutdown" ->
         Res([s1 EXCEPT !.due = (IF s.sockOpen THEN <<Due("tclose", 0, 0, <<>>, "")>> ELSE <<>>) \o <<DVoid>>,
                        !.connected = FALSE], TRUE, "")
    [] e.api = "settimeout" ->
         Res([s1 EXCEPT !.due = (IF s.sockOpen THEN <<Due("tsettimeout", e.value, 0, <<>>, "")>> ELSE <<>>) \o <<DVoid>>,
                        !.closeTimeout = @, !.tmo = e.value], TRUE, "")
    [] e.api = "gettimeout" -> Res([s1 EXCEPT !.due = <<Due("retval", s.tmo, 0, <<>>, "")>>], TRUE, "")
    [] e.api = "abort" ->
         \* wakes up readers: the transport is shut down (not released), only while the connection is up
         Res([s1 EXCEPT !.due = (IF s.connected /\ s.sockOpen THEN <<Due("tshutdown", 0, 0, <<>>, "")>> ELSE <<>>) \o <<DVoid>>,
                        !.aborted = @ \/ (s.connected /\ s.sockOpen)], TRUE, "")
    [] e.api = "close" ->
         IF ~s.connected THEN
            \* nothing to negotiate any more; whatever transport is still held is released
            Res([s1 EXCEPT !.due = (IF s.sockOpen THEN <<Due("tclose", 0, 0, <<>>, "")>> ELSE <<>>) \o <<DVoid>>], TRUE, "")
         ELSE IF e.status < 0 \/ e.status > 65535 THEN Res([s1 EXCEPT !.due = <<DRaise("ValueError")>>], TRUE, "")
         ELSE IF s.aborted THEN   \* nothing can be written any more: only the release is left
              Res([s1 EXCEPT !.connected = FALSE, !.closeTimeout = e.timeout, !.due = <<>>, !.closing = TRUE], TRUE, "")
         ELSE Res([s1 EXCEPT !.connected = FALSE, !.ownCloses = @ + 1, !.closeTimeout = e.timeout,
                             !.due = <<DSend(OpClose, CloseBody(e.status, e.reason))>>, !.closing = TRUE], TRUE, "")
    [] OTHER -> Fail(s, "harness.unknown_api")

\* transport reads while close() waits for the peer's close frame: frames are consumed and dropped,
\* nothing may be written any more
KClosingRead(s, e) ==
  IF s.due # <<>> THEN Fail(s, "C08.close_frame_not_written_before_waiting")
  ELSE IF e.ev = "trecv" THEN
       IF e.req > 16384 THEN Fail(s, "C17.request_bounded")
       ELSE IF e.pos # s.taken THEN Fail(s, "C03.bytes_consumed_outside_the_calls")
       ELSE Res([s EXCEPT !.taken = @ + e.got], TRUE, "")
  ELSE Res(s, TRUE, "")     \* timeout / end of stream / error end the wait

KTClose(s, e) ==
  IF s.tclosed THEN Res(s, TRUE, "")        \* closing twice is harmless
  ELSE IF ~s.call.active THEN Fail(s, "C08.transport_closed_outside_a_call")
  ELSE LET s1 == [s EXCEPT !.tclosed = TRUE, !.sockOpen = FALSE, !.connected = FALSE] IN
       IF s.due # <<>> /\ Head(s.due).k = "tclose" THEN Res([s1 EXCEPT !.due = Tail(@)], TRUE, "")
       ELSE IF s.closing /\ s.due = <<>> THEN Res(s1, TRUE, "")
       ELSE IF s.due # <<>> /\ Head(s.due).k = "raise" /\ Head(s.due).cls = "Closed" THEN Res(s1, TRUE, "")  \* loss: released before raising
       ELSE Fail(s, "C08.transport_closed_unexpectedly")

KRet(s0, e) ==
  LET s == SkipOpt(s0) IN
  IF s.closing THEN
     IF s.due # <<>> THEN Fail(s, "C08.close_frame_not_written")
     ELSE IF ~s.tclosed THEN Fail(s, "C08.transport_not_released_by_close")
     ELSE IF e.connected \/ ~e.sock_none THEN Fail(s, "C08.object_still_connected_after_close")
     ELSE IF e.t - s.callT > s.closeTimeout THEN Fail(s, "C08.close_exceeded_its_timeout")
     ELSE Res([EndCall(s) EXCEPT !.closing = FALSE, !.hist = Append(@, <<"closed">>)], TRUE, "")
  ELSE IF s.due = <<>> THEN Fail(s, "harness.ret_without_due")
  ELSE LET d == Head(s.due) IN
       IF d.k = "send" THEN Fail(s, IF d.op = OpClose THEN "C08.close_frame_not_written" ELSE "C08.frame_not_written")
       ELSE IF d.k = "tclose" THEN
            Fail(s, IF s.call.api = "close" THEN "C08.close_after_peer_close_leaves_transport_open" ELSE "C08.shutdown_leaves_transport_open")
       ELSE IF d.k = "tsettimeout" THEN Fail(s, "X08.settimeout_not_applied_to_transport")
       ELSE IF d.k = "tshutdown" THEN Fail(s, "X08.abort_did_not_shut_the_transport_down")
       ELSE IF d.k = "retval" THEN
            IF e.value # d.op THEN Fail(s, "X08.gettimeout_value") ELSE Res(EndCall(s), TRUE, "")
       ELSE IF d.k = "raise" THEN
            Fail(s, IF d.cls = "ValueError" THEN "C08.out_of_range_status_accepted" ELSE "C08.call_on_closed_connection_returned")
       ELSE IF e.connected # s.connected THEN Fail(s, "C08.connected_flag")
       ELSE IF e.sock_none # ~s.sockOpen THEN Fail(s, "C08.transport_reference")
       ELSE Res(EndCall(s), TRUE, "")

KRaise(s0, e) ==
  LET s == SkipOpt(s0) IN
  IF s.closing THEN Fail(s, "C08.close_raised")
  ELSE IF s.due = <<>> THEN Fail(s, "C08.spurious_exception")
  ELSE LET d == Head(s.due) IN
       IF d.k # "raise" THEN
          Fail(s, IF e.cls = "WebSocketConnectionClosedException" THEN "C08.open_connection_reported_closed" ELSE "C08.spurious_exception")
       ELSE IF d.cls = "ValueError" THEN
            IF e.cls = "ValueError" THEN Res(EndCall(s), TRUE, "") ELSE Fail(s, "C08.out_of_range_status_not_refused_with_ValueError")
       ELSE IF d.cls = "Transport" THEN
            IF e.terr \/ e.doc THEN Res(EndCall(s), TRUE, "") ELSE Fail(s, "C17.undocumented_exception")
       ELSE IF e.cls # ClsOf(d.cls) THEN Fail(s, "C08.loss_not_reported_as_connection_closed")
       ELSE Res(EndCall(s), TRUE, "")

KStep(s, e) ==
  IF e.ev = "hang" THEN Fail(s, "C08.call_never_returned")
  ELSE IF e.ev = "blocked" THEN (IF s.tmo = -1 THEN Res(s, TRUE, "") ELSE Fail(s, "C17.no_progress"))   \* a read without timeout on a silent peer
  ELSE IF e.ev = "call" /\ e.api \in NewApis THEN KCall(s, e)
  ELSE IF e.ev = "tclose" THEN KTClose(s, e)
  ELSE IF e.ev \in {"tshutdown", "tsettimeout"} THEN
       IF s.call.active /\ s.due # <<>> /\ Head(s.due).k = e.ev THEN
          IF e.ev = "tsettimeout" /\ e.value # Head(s.due).op THEN Fail(s, "X08.settimeout_value_not_applied_to_transport")
          ELSE Res([s EXCEPT !.due = Tail(@)], TRUE, "")
       ELSE IF s.call.active /\ (s.closing \/ s.call.api \in {"close", "shutdown"}) THEN Res(s, TRUE, "")
       ELSE IF e.ev = "tsettimeout" THEN Res(s, TRUE, "") ELSE Fail(s, "C08.transport_shut_down_outside_close")
  ELSE IF s.call.active /\ s.call.api \in NewApis THEN
       CASE e.ev = "ret" -> KRet(s, e)
         [] e.ev = "raise" -> KRaise(s, e)
         [] e.ev = "tsend" -> IF s.closing /\ s.due = <<>> THEN Fail(s, "C08.write_while_waiting_for_the_closing_handshake")
                              ELSE StepTSend(s, e)
         [] e.ev = "tsendfail" ->     \* the transport refuses the write: close() gives up the handshake, other calls fail with its error
              IF s.due = <<>> \/ Head(s.due).k # "send" THEN Fail(s, "C08.unexpected_write")
              ELSE IF s.closing THEN Res([s EXCEPT !.due = <<>>], TRUE, "")
              ELSE Res([s EXCEPT !.due = <<DRaise("Transport")>>], TRUE, "")
         [] e.ev \in {"trecv", "ttimeout", "teof", "terr"} ->
              IF s.closing THEN KClosingRead(s, e)
              ELSE IF ~s.sockOpen THEN Fail(s, "C08.transport_touched_after_close")
              ELSE Fail(s, "C08.unexpected_read")
         [] e.ev = "tbad" -> Fail(s, "C08.transport_touched_after_close")
         [] OTHER -> Fail(s, "harness.unknown_event")
  ELSE IF e.ev = "tsend" /\ ~s.sockOpen THEN Fail(s, "C08.transport_touched_after_close")
  ELSE Step(s, e)
=============================================================================
