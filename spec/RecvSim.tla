------------------------------- MODULE RecvSim -------------------------------
(***************************************************************************)
(* Behaviours of the receive model for replay into the implementation      *)
(* (direction specification -> code).  RecvMC plus a history variable that *)
(* records the environment's choices: which call, how many bytes each      *)
(* transport read handed over, where a read timed out, whether the stream  *)
(* ended.  At every terminal state of a behaviour (nothing is enabled any  *)
(* more, or the depth bound of a -simulate run is reached) one line is     *)
(* printed: the scenario (stream, flags, API, environment choices) and the *)
(* observable history the specification predicts for it.  vf/props/        *)
(* recv_model.py turns each line into a scripted transport, drives the     *)
(* real WebSocket object through it, has TraceRecv validate the recorded   *)
(* trace and compares the observable history with the predicted one.       *)
(*                                                                         *)
(* The history variable makes the state graph a tree (one state per        *)
(* distinct prefix of environment choices), so this module is run with     *)
(* smaller constants than RecvMC, or with -simulate.                       *)
(***************************************************************************)
EXTENDS RecvMC, VfEmit
CONSTANT MaxDepth      \* -simulate runs: behaviours are cut (and printed) at this depth; 0 = only terminal states
VARIABLE evs
svars == <<st, api, nto, evs>>

Compact(e) ==
  CASE e.ev = "call"     -> <<"c">>
    [] e.ev = "trecv"    -> <<"r", e.got>>
    [] e.ev = "ttimeout" -> <<"t">>
    [] e.ev = "teof"     -> <<"e">>
    [] OTHER             -> <<"o">>

SInit == Init /\ evs = <<>>

SNext == /\ (MaxDepth = 0 \/ Len(evs) < MaxDepth)
         /\ \E e \in Events(st) :
             LET r == Step(st, e) IN
               /\ r.ok
               /\ st' = r.s
               /\ api' = api
               /\ nto' = IF e.ev = "ttimeout" THEN nto + 1 ELSE nto
               /\ evs' = Append(evs, Compact(e))

SSpec == SInit /\ [][SNext]_svars

\* a behaviour is handed over when it has ended, always between two calls or at the very end (a behaviour cut inside
\* a call would leave the replayed call without its expected outcome)
Ended == Events(st) = {} \/ (MaxDepth # 0 /\ Len(evs) >= MaxDepth)
EmitBehaviour ==
  Ended => EmitJson("B", [stream |-> st.stream, api |-> api[1], control |-> api[2],
                          fireCont |-> st.fireCont, skipUtf8 |-> st.skipUtf8,
                          evs |-> evs, hist |-> st.hist, open |-> st.call.active,
                          failed |-> st.failed])
=============================================================================
