------------------------------- MODULE ReqBatch -------------------------------
(* C10: every recorded opening-handshake request is judged against Http!Request. *)
EXTENDS Http, Json, IOUtils, VfEmit
Trace == ndJsonDeserialize(IOEnv.TRACE_FILE)
Bad == {i \in 1..Len(Trace) : RequestFaults(Trace[i]) # {}}
ASSUME EmitJson("BAD", [bad |-> {<<i, RequestFaults(Trace[i])>> : i \in Bad}, n |-> Len(Trace)])
VARIABLE x
Init == x = 0
Next == UNCHANGED x
=============================================================================
