----------------------------- MODULE TraceConnect -----------------------------
(* Validation of recorded connect() executions against ConnectM (C09, and the   *)
(* handshake-phase clauses of C17).  Same batch scheme as TraceRecv.             *)
EXTENDS ConnectM, Json, IOUtils, VfEmit
Trace == ndJsonDeserialize(IOEnv.TRACE_FILE)
VARIABLES l, st, dead, bad, nacc
tvars == <<l, st, dead, bad, nacc>>
TInit == l = 1 /\ st = CInit(0, <<>>) /\ dead = TRUE /\ bad = <<>> /\ nacc = 0
TNext ==
  /\ l <= Len(Trace)
  /\ l' = l + 1
  /\ LET e == Trace[l] IN
     IF e.ev = "begin"
     THEN st' = CInit(e.limit, e.offered) /\ dead' = FALSE /\ bad' = bad /\ nacc' = nacc
     ELSE IF e.ev = "end"
     THEN /\ dead' = TRUE
          /\ IF ~dead /\ ~st.done
             THEN bad' = Append(bad, [tid |-> e.tid, at |-> e.i, ev |-> e.ev, why |-> "harness.no_outcome"]) /\ nacc' = nacc
             ELSE bad' = bad /\ nacc' = IF dead THEN nacc ELSE nacc + 1
          /\ st' = st
     ELSE IF dead THEN UNCHANGED <<st, dead, bad, nacc>>
     ELSE LET r == CStep(st, e) IN
          IF r.ok THEN st' = r.s /\ UNCHANGED <<dead, bad, nacc>>
          ELSE st' = st /\ dead' = TRUE /\ nacc' = nacc
               /\ bad' = Append(bad, [tid |-> e.tid, at |-> e.i, ev |-> e.ev, why |-> r.why])
TSpec == TInit /\ [][TNext]_tvars
TBounded == dead \/ st.followups <= st.limit
Done == l = Len(Trace) + 1
Report == Done => EmitJson("VERDICT", [bad |-> bad, accepted |-> nacc, events |-> Len(Trace)])
=============================================================================
