------------------------------- MODULE AppMon -------------------------------
(***************************************************************************)
(* The observable contract of WebSocketApp.run_forever (C13, C14, C15,     *)
(* C16) as a monitor: a total step function over the events an application *)
(* and its peer can see - connection attempts, what the server sent and    *)
(* when, callbacks with their arguments and (virtual) time, pings seen by  *)
(* the server, transports closed, the return of run_forever, the state at  *)
(* quiescence.  No implementation variable appears here.                   *)
(*                                                                         *)
(* The same operator judges the behaviours of the process model App.tla    *)
(* (model checking) and the traces recorded from the real library under    *)
(* the deterministic scheduler (TraceApp).  Times are milliseconds.        *)
(***************************************************************************)
EXTENDS Integers, Sequences, FiniteSets, TLC

NoConn == [outcome |-> "none", up |-> FALSE, upT |-> 0, openSeen |-> FALSE, isRe |-> FALSE, pending |-> <<>>,
           ending |-> "none", endT |-> 0, closeFrame |-> [hasBody |-> FALSE, status |-> 0, reason |-> <<>>],
           tclosed |-> FALSE, tcloseT |-> -1, npings |-> 0, lastPingT |-> 0, pings |-> <<>>, npongs |-> 0, timeoutT |-> -1,
           run |-> 0, appCloseFirst |-> FALSE]

MInit ==
  [run |-> -1, active |-> FALSE, I |-> 0, T |-> 0, R |-> 0, cbs |-> {}, ext |-> FALSE, payload |-> <<>>,
   skipUtf8 |-> FALSE,          \* skip_utf8_validation: text is not validated (and is handed over undecoded)
   refuse |-> FALSE,            \* inconsistent settings: the run must be refused before connecting
   conns |-> <<>>, firstCid |-> 0,
   nclose |-> 0, errors |-> 0, cbErrorsExpected |-> 0, lastCb |-> "none",
   stop |-> FALSE,              \* a server close frame was seen or the application called close(): no more attempts
   appClose |-> FALSE, appCloseT |-> 0,
   lossT |-> -1,                \* time of the last abnormal loss / failed attempt (-2: time not observable)
   jitter |-> 0,                \* scenario's bound on how late a thread may come back from a write (ms)
   log |-> <<>>,                \* what the application saw, in order: <<callback, time>>, <<"dial", outcome, time>>, <<"ret", value>>
   kbint |-> FALSE, ret |-> "none", retVal |-> FALSE, lossSeen |-> FALSE, horizon |-> FALSE]

MRes(s, ok, why) == [s |-> s, ok |-> ok, why |-> why]
MFail(s, why) == MRes(s, FALSE, why)
HasCb(s, n) == n \in s.cbs
Cur(s) == Len(s.conns)           \* index (cid + 1) of the latest connection

(* ---- run_begin ---------------------------------------------------------- *)
MBegin(s, e) ==
  MRes([MInit EXCEPT !.run = e.run, !.active = TRUE, !.I = e.interval, !.T = e.timeout, !.R = e.reconnect,
                    !.cbs = {e.cbs[i] : i \in 1..Len(e.cbs)}, !.ext = (e.dispatcher = "ext"), !.payload = e.payload,
                    !.jitter = e.jitter, !.skipUtf8 = ("skipUtf8" \in DOMAIN e /\ e.skipUtf8),
                    !.refuse = (e.timeoutGiven /\ e.timeout <= 0) \/ e.interval < 0
                               \/ (e.timeout > 0 /\ e.interval > 0 /\ e.interval <= e.timeout),
                    !.conns = s.conns, !.firstCid = Len(s.conns) + 1, !.log = s.log], TRUE, "")

(* ---- connection attempts ------------------------------------------------ *)
MDial(s, e) ==
  LET k == e.cid + 1 IN
  IF s.refuse THEN MFail(s, "C16.inconsistent_settings_not_refused_before_connecting")
  ELSE IF k # Len(s.conns) + 1 THEN MFail(s, "harness.cid_out_of_order")
  \* (a close() racing with an attempt at the very same instant cannot be told apart from one just after it)
  ELSE IF k > s.firstCid /\ s.stop /\ ~(s.appClose /\ s.appCloseT = e.t) THEN MFail(s, "C15.connection_attempt_after_close")
  ELSE IF k > s.firstCid /\ s.R = 0 THEN MFail(s, "C15.reconnected_without_reconnect_interval")
  ELSE IF k > s.firstCid /\ s.nclose > 0 THEN MFail(s, "C15.on_close_fired_before_reconnecting")
  ELSE IF k > s.firstCid /\ s.lossT >= 0 /\ e.t # s.lossT + s.R THEN MFail(s, "C15.retry_not_one_interval_after_the_loss")
  ELSE IF \E j \in 1..(k - 1) : s.conns[j].outcome = "established" /\ ~s.conns[j].tclosed
       THEN MFail(s, "C15.more_than_one_live_transport")
  ELSE LET c == [NoConn EXCEPT !.outcome = e.outcome, !.up = (e.outcome = "established"), !.upT = e.t,
                               !.isRe = (k > s.firstCid), !.run = s.run,
                               !.ending = IF e.outcome = "established" THEN "none" ELSE e.outcome,
                               !.tclosed = (e.outcome = "refused")]
       IN MRes([s EXCEPT !.conns = Append(@, c),
                         !.lossT = IF e.outcome = "established" THEN -1 ELSE e.t,
                         !.lossSeen = @ \/ e.outcome # "established"], TRUE, "")

\* first ping of the silence: the first ping such that it and every later one got no answer
FirstUnanswered(c) ==
  LET un == {i \in 1..Len(c.pings) : \A j \in i..Len(c.pings) : c.pings[j].lat < 0} IN
    IF un = {} THEN 0 ELSE CHOOSE i \in un : \A j \in un : i <= j

(* ---- what the server sent ----------------------------------------------- *)
Item(kind, data, op, t) == [kind |-> kind, data |-> data, op |-> op, t |-> t]
MSrv(s, e) ==
  LET k == e.cid + 1
      c == s.conns[k] IN
  IF k < 1 \/ k > Len(s.conns) THEN MFail(s, "harness.srv_for_unknown_connection")
  ELSE IF c.ending # "none" THEN MRes(s, TRUE, "")      \* nothing after the end of the conversation is owed
  ELSE
    CASE e.kind = "msg" \/ (e.kind = "badutf8" /\ s.skipUtf8) ->
           MRes([s EXCEPT !.conns[k].pending = @ \o
                   (IF HasCb(s, "data") THEN <<Item("data", e.data, e.op, e.t)>> ELSE <<>>) \o
                   (IF HasCb(s, "message") THEN <<Item("message", e.data, e.op, e.t)>> ELSE <<>>)], TRUE, "")
      [] e.kind = "ping" ->
           MRes([s EXCEPT !.conns[k].pending = @ \o (IF HasCb(s, "ping") THEN <<Item("ping", e.data, 9, e.t)>> ELSE <<>>)], TRUE, "")
      [] e.kind = "pong" ->
           MRes([s EXCEPT !.conns[k].pending = @ \o (IF HasCb(s, "pong") THEN <<Item("pong", e.data, 10, e.t)>> ELSE <<>>),
                          !.conns[k].npongs = @ + 1,
                          !.conns[k].pings = IF c.npongs + 1 <= Len(@) THEN [@ EXCEPT ![c.npongs + 1].pongT = e.t] ELSE @], TRUE, "")
      [] e.kind = "close" ->
           MRes([s EXCEPT !.conns[k].ending = "close_frame", !.conns[k].endT = e.t,
                          !.conns[k].appCloseFirst = s.appClose,
                          !.conns[k].closeFrame = [hasBody |-> e.hasBody, status |-> e.status, reason |-> e.reason],
                          !.stop = TRUE], TRUE, "")
      [] e.kind \in {"eof", "reset", "bad", "badutf8"} ->     \* (badutf8 with validation skipped: a message, above)
           \* (a connection with a ping unanswered for longer than the timeout may have been given up already without any
           \*  report - reconnecting runs do not call on_error -: the moment of the loss is then not observable)
           LET u == FirstUnanswered(c)
               maybeGivenUp == s.T > 0 /\ (s.R > 0 \/ s.ext) /\ u # 0 /\ e.t >= c.pings[u].t + s.T
           IN MRes([s EXCEPT !.conns[k].ending = e.kind, !.conns[k].endT = e.t,
                             !.lossT = IF s.appClose THEN @ ELSE IF maybeGivenUp THEN -2 ELSE e.t, !.lossSeen = TRUE], TRUE, "")
      [] OTHER -> MRes(s, TRUE, "")

(* ---- callbacks ---------------------------------------------------------- *)
MOpen(s, e) ==
  LET k == e.cid + 1 c == s.conns[k] IN
  IF k < 1 \/ k > Len(s.conns) \/ ~c.up THEN MFail(s, "C13.open_without_established_connection")
  ELSE IF c.openSeen THEN MFail(s, "C13.open_fired_twice_for_one_connection")
  ELSE IF e.name = "reconnect" /\ ~c.isRe THEN MFail(s, "C13.on_reconnect_for_a_first_connection")
  ELSE IF e.name = "open" /\ c.isRe /\ HasCb(s, "reconnect") THEN MFail(s, "C15.on_open_instead_of_on_reconnect")
  ELSE IF s.nclose > 0 THEN MFail(s, "C14.callback_after_on_close")
  ELSE MRes([s EXCEPT !.conns[k].openSeen = TRUE, !.lastCb = e.name], TRUE, "")

MDeliver(s, e) ==
  LET k == e.cid + 1 c == s.conns[k] IN
  IF k < 1 \/ k > Len(s.conns) THEN MFail(s, "C13.callback_without_connection")
  ELSE IF s.nclose > 0 THEN MFail(s, "C14.callback_after_on_close")
  ELSE IF ~c.openSeen /\ (HasCb(s, "open") \/ (c.isRe /\ HasCb(s, "reconnect"))) THEN MFail(s, "C13.callback_before_on_open")
  ELSE IF c.pending = <<>> THEN MFail(s, "C13.delivered_something_the_server_did_not_send (duplicate?)")
  ELSE LET it == Head(c.pending) IN
       IF it.kind # e.name THEN
            \* recoverable: the skipped events are dropped from the expectation so the rest of the run is still judged
            LET J == {j \in 1..Len(c.pending) : c.pending[j].kind = e.name /\ c.pending[j].data = e.arg.data} IN
            IF J = {} THEN MFail(s, "C13.events_out_of_order_or_skipped")
            ELSE LET j == CHOOSE j \in J : \A j2 \in J : j <= j2 IN
                 MRes([s EXCEPT !.conns[k].pending = SubSeq(@, j + 1, Len(@)), !.lastCb = e.name], FALSE, "C13.events_out_of_order_or_skipped")
       ELSE IF it.data # e.arg.data THEN MFail(s, "C13.delivered_content_differs")
       ELSE IF e.name \in {"data", "message"} /\ e.arg.type # (IF it.op = 1 THEN "str" ELSE "bytes")
               /\ ~(s.skipUtf8 /\ it.op = 1)      \* validation skipped: the code hands text over undecoded (deliberate, DESIGN 0a)
            THEN MFail(s, "C13.text_as_str_binary_as_bytes")
       ELSE IF e.name = "data" /\ e.dtype # it.op THEN MFail(s, "C13.on_data_type_is_not_text_or_binary")
       ELSE IF e.t # it.t THEN MFail(s, "C13.delivered_late (waited for further traffic)")
       ELSE MRes([s EXCEPT !.conns[k].pending = Tail(@), !.lastCb = e.name], TRUE, "")

InternalErrors == {"AttributeError", "TypeError", "KeyError", "IndexError", "NameError", "UnboundLocalError", "AssertionError"}
IsPingTimeout(e) == e.cls = "WebSocketTimeoutException"
MError(s, e) ==
  LET k == Cur(s) IN
  IF s.nclose > 0 THEN MFail(s, "C14.callback_after_on_close")
  ELSE IF ~e.isexc THEN MFail(s, "C14.close_frame_reported_as_error")
  ELSE IF e.cls \in InternalErrors /\ ~(s.cbErrorsExpected > 0) THEN MFail(s, "C14.internal_error_reported_to_on_error")
  ELSE IF e.cls \in InternalErrors THEN MFail(s, "C13.exception_of_a_callback_replaced_by_an_internal_error")   \* (the callbacks of the scenarios raise RuntimeError)
  ELSE IF s.cbErrorsExpected > 0 /\ e.cls = "RuntimeError"
       THEN MRes([s EXCEPT !.cbErrorsExpected = @ - 1, !.lastCb = "error"], TRUE, "")   \* a user callback's own exception: reported, the run goes on
  ELSE IF s.appClose /\ (k < s.firstCid \/ s.conns[k].ending \in {"none", "close_frame"}) /\ ~(s.cbErrorsExpected > 0)
       THEN MFail(s, "C14.error_reported_for_a_run_ended_by_the_applications_close")
  ELSE IF k >= 1 /\ s.conns[k].up /\ s.conns[k].ending = "none" /\ ~s.appClose /\ ~(s.cbErrorsExpected > 0) /\ ~s.kbint
          /\ ~(IsPingTimeout(e) /\ s.T > 0)
       THEN MFail(s, "C13.error_reported_on_a_connection_whose_peer_did_nothing_wrong")    \* (a legal message was refused)
  ELSE IF k >= 1 /\ IsPingTimeout(e) /\ s.T > 0 /\ s.conns[k].up THEN
       LET c == s.conns[k]
           responsive == \A i \in 1..Len(c.pings) : c.pings[i].lat >= 0 /\ c.pings[i].lat <= s.T
       IN IF responsive THEN MFail(s, "C16.responsive_peer_reported_as_timed_out")
          ELSE MRes([s EXCEPT !.errors = @ + 1, !.conns[k].timeoutT = e.t, !.lastCb = "error",
                              !.conns[k].ending = IF c.ending = "none" THEN "ping_timeout" ELSE c.ending,
                              !.conns[k].endT = IF c.ending = "none" THEN e.t ELSE c.endT,
                              !.lossT = IF c.ending = "none" /\ ~s.appClose THEN e.t ELSE @, !.lossSeen = TRUE], TRUE, "")
  ELSE MRes([s EXCEPT !.errors = @ + 1, !.lastCb = "error"], TRUE, "")

\* arguments on_close must get: those of the close frame by which the server ended the connection
MClose(s, e) ==
  LET k == Cur(s)
      byFrame == k >= 1 /\ s.conns[k].ending = "close_frame" /\ s.conns[k].run = s.run
      cf == s.conns[k].closeFrame
      exact == e.status = cf.status /\ (e.reason.data = cf.reason \/ s.skipUtf8) /\ ~e.none
      none == e.none
  IN
  IF s.nclose > 0 THEN MFail(s, "C14.on_close_called_twice")
  ELSE IF byFrame /\ ~s.appClose /\ cf.hasBody /\ ~exact THEN MFail(s, "C14.on_close_arguments_not_those_of_the_close_frame")
  ELSE IF byFrame /\ ~cf.hasBody /\ ~none THEN MFail(s, "C14.on_close_arguments_for_empty_close_frame")
  ELSE IF byFrame /\ s.appClose /\ ~(none \/ exact) THEN MFail(s, "C14.on_close_arguments")
  ELSE IF ~byFrame /\ ~none /\ ~s.appClose THEN MFail(s, "C14.on_close_arguments_without_close_frame")   \* (after the application's close() the peer's answering close frame may be passed on)
  ELSE MRes([s EXCEPT !.nclose = 1, !.lastCb = "close"], TRUE, "")

(* ---- keepalive ---------------------------------------------------------- *)
MPingSent(s, e) ==
  LET k == e.cid + 1 c == s.conns[k] IN
  IF s.I = 0 THEN MFail(s, "C16.ping_without_interval")
  ELSE IF e.data # s.payload THEN MFail(s, "C16.ping_payload")
  ELSE IF c.ending # "none" /\ e.t > c.endT THEN MFail(s, "C16.ping_after_the_connection_ended")
  ELSE IF c.npings = 0 /\ e.t > c.upT + 2 * s.I + 2 * s.jitter THEN MFail(s, "C16.first_ping_late")
  ELSE IF c.npings > 0 /\ (e.t < c.lastPingT + s.I \/ e.t > c.lastPingT + s.I + s.jitter) THEN MFail(s, "C16.pings_not_periodic")
  ELSE MRes([s EXCEPT !.conns[k].npings = @ + 1, !.conns[k].lastPingT = e.t,
                      !.conns[k].pings = Append(@, [t |-> e.t, pongT |-> -1, lat |-> e.lat])], TRUE, "")


\* evaluated when a connection is over (at time endT): was a silent peer detected in time?
\* (with a reconnect interval or an external dispatcher the loss is not necessarily reported to on_error: there the
\*  moment the connection is given up - its transport released - counts as the detection)
SilenceFault(s, c, endT) ==
  LET u == FirstUnanswered(c)
      given == IF c.timeoutT >= 0 THEN c.timeoutT
               ELSE IF (s.R > 0 \/ s.ext) /\ c.tcloseT >= 0 THEN c.tcloseT
               ELSE endT
      \* (the old transport is released when the next attempt starts, one reconnect interval after the detection)
      slack == IF c.timeoutT < 0 /\ (s.R > 0 \/ s.ext) /\ c.tcloseT >= 0 THEN s.R ELSE 0
  IN s.T > 0 /\ u # 0 /\ given > c.pings[u].t + 2 * s.T + s.jitter + slack

PingsMissing(s, c, endT) ==
  s.I > 0 /\ endT - c.upT >= 2 * s.I /\ c.npings < ((endT - c.upT) \div s.I) - 2

(* ---- the end ------------------------------------------------------------ *)
ConnOver(s, k, t) ==
  LET c == s.conns[k] IN
  IF c.outcome # "established" THEN ""
  ELSE IF SilenceFault(s, c, t) THEN "C16.silent_peer_not_reported_within_two_timeouts"
  ELSE IF (c.ending # "none" \/ (k = Len(s.conns) /\ s.R = 0)) /\ PingsMissing(s, c, IF c.ending = "none" THEN t ELSE c.endT)
       THEN "C16.pings_not_sent_while_connection_up"
  ELSE IF \E i \in 1..Len(c.pending) : c.pending[i].t < (IF c.ending = "none" THEN t ELSE c.endT) /\ ~s.appClose
       THEN "C13.event_never_delivered_although_connection_stayed_up"
  ELSE ""

MRunRet(s, e) ==
  LET faults == {ConnOver(s, k, e.t) : k \in s.firstCid..Len(s.conns)} \ {""}
      k == Cur(s)
      ended == IF k >= s.firstCid THEN s.conns[k].ending ELSE "none"
  IN
  IF s.refuse THEN MFail(s, "C16.inconsistent_settings_accepted")
  ELSE IF HasCb(s, "close") /\ s.nclose # 1 /\ ~s.ext THEN MFail(s, "C14.on_close_not_called")
  ELSE IF faults # {} THEN MFail(s, CHOOSE f \in faults : TRUE)
  ELSE IF HasCb(s, "error") /\ e.value # (s.errors > 0) /\ s.R = 0 /\ ~s.ext THEN
       MFail(s, IF e.value THEN "C14.returned_True_without_reported_error" ELSE "C14.returned_False_although_error_reported")
  ELSE IF s.R > 0 /\ ~s.stop /\ ~s.appClose /\ s.lossSeen THEN MFail(s, "C15.gave_up_reconnecting")
  \* "run_forever returns ... the ping thread is gone": judged at the moment of the return, not only once everything is quiet
  ELSE IF "live" \in DOMAIN e /\ e.live # <<>> /\ ~s.ext THEN MFail(s, "C14.ping_thread_still_alive")
  ELSE MRes([s EXCEPT !.ret = "returned", !.retVal = e.value, !.active = FALSE], TRUE, "")

MRunRaise(s, e) ==
  IF s.refuse THEN
     IF e.cls = "WebSocketException" THEN MRes([s EXCEPT !.ret = "refused", !.active = FALSE], TRUE, "")
     ELSE MFail(s, "C16.refused_with_undocumented_exception")
  ELSE IF e.cls = "KeyboardInterrupt" /\ s.kbint THEN
     IF HasCb(s, "close") /\ s.nclose # 1 THEN MFail(s, "C14.on_close_not_called")
     ELSE MRes([s EXCEPT !.ret = "interrupted", !.active = FALSE], TRUE, "")
  ELSE MFail(s, "C14.run_forever_raised")

MQuiesce(s, e) ==
  IF e.deadlock THEN MFail(s, "C14.run_forever_does_not_terminate")
  ELSE IF e.overrun THEN MFail(s, "C14.run_forever_spins")
  ELSE IF s.ret = "none" THEN MFail(s, "C14.run_forever_does_not_terminate")
  ELSE IF s.ext THEN MRes(s, TRUE, "")     \* with an external dispatcher the loop's lifetime is not run_forever's (C14 is judged on the built-in loop)
  ELSE IF e.open # 0 THEN MFail(s, "C14.transport_not_released")
  ELSE IF e.live # <<>> THEN MFail(s, "C14.ping_thread_still_alive")
  ELSE IF ~e.sock_none THEN MFail(s, "C14.object_keeps_its_socket")
  ELSE MRes(s, TRUE, "")

\* WebSocketApp.send() from application code - beyond the listed properties (clauses X13.*, reported as drift):
\* while a connection is up the frame reaches the peer, afterwards the call raises connection-closed
MAppSend(s, e) ==
  LET k == Cur(s)
      up == s.active /\ k >= s.firstCid /\ k >= 1 /\ s.conns[k].up /\ s.conns[k].ending = "none" /\ ~s.appClose /\ s.nclose = 0
  IN IF e.ok /\ ~e.delivered THEN MFail(s, "X13.send_reported_success_but_nothing_reached_the_peer")
     ELSE IF up /\ ~e.ok THEN MFail(s, "X13.send_refused_on_an_open_connection")
     ELSE IF ~e.ok /\ e.cls # "WebSocketConnectionClosedException" THEN MFail(s, "X13.send_on_closed_connection_raised_something_else")
     ELSE IF ~s.active /\ e.ok THEN MFail(s, "X13.send_after_the_run_ended_succeeded")
     ELSE MRes(s, TRUE, "")

LogOf(e) ==
  CASE e.ev = "cb" -> <<<<e.name, e.t>>>>
    [] e.ev = "dial" -> <<<<"dial", e.outcome, e.t>>>>
    [] e.ev = "run_ret" -> <<<<"ret", e.value>>>>
    [] e.ev = "run_raise" -> <<<<"raise", e.cls>>>>
    [] OTHER -> <<>>

MStep0(s, e) ==
  CASE e.ev = "run_begin" -> MBegin(s, e)
    [] e.ev = "dial" -> MDial(s, e)
    [] e.ev = "srv" -> MSrv(s, e)
    [] e.ev = "cb" /\ e.name \in {"open", "reconnect"} -> MOpen(s, e)
    [] e.ev = "cb" /\ e.name \in {"data", "message", "ping", "pong"} -> MDeliver(s, e)
    [] e.ev = "cb" /\ e.name = "error" -> MError(s, e)
    [] e.ev = "cb" /\ e.name = "close" -> MClose(s, e)
    [] e.ev = "cb_raise" -> MRes([s EXCEPT !.cbErrorsExpected = IF e.kb THEN @ ELSE @ + 1, !.kbint = @ \/ e.kb,
                                           !.stop = @ \/ e.kb], TRUE, "")
    [] e.ev = "app_close" -> MRes([s EXCEPT !.appClose = TRUE, !.appCloseT = e.t, !.stop = TRUE], TRUE, "")
    [] e.ev = "ping_sent" -> MPingSent(s, e)
    [] e.ev = "app_send" -> MAppSend(s, e)
    [] e.ev = "tclose" -> IF e.cid + 1 \in 1..Len(s.conns) THEN MRes([s EXCEPT !.conns[e.cid + 1].tclosed = TRUE,
                                                                                    !.conns[e.cid + 1].tcloseT = IF @ >= 0 THEN @ ELSE e.t], TRUE, "") ELSE MRes(s, TRUE, "")
    [] e.ev = "run_ret" -> MRunRet(s, e)
    [] e.ev = "run_raise" -> MRunRaise(s, e)
    [] e.ev = "quiesce" -> MQuiesce(s, e)
    [] OTHER -> MFail(s, "harness.unknown_event")

\* clauses after which the monitor's state (r.s) is resynchronised and the rest of the trace is judged too
Recoverable == {"C13.events_out_of_order_or_skipped"}
MStep(s, e) == LET r == MStep0(s, e) IN IF r.ok THEN [r EXCEPT !.s.log = @ \o LogOf(e)] ELSE r
=============================================================================
