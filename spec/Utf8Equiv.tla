----------------------------- MODULE Utf8Equiv -----------------------------
(***************************************************************************)
(* Property C06 decided for every byte string: the product of the         *)
(* implementation's UTF-8 automaton (its transition table UTF8D is read   *)
(* from the live module when the check starts and supplied by the         *)
(* generated module Utf8Tbl) with the Unicode definition Codec!U8Step.    *)
(* Both machines are finite, so exploring the reachable product is a      *)
(* decision procedure, not a sample.                                      *)
(*                                                                         *)
(* w is a history variable (a witness prefix reaching the state); it is   *)
(* hidden by the VIEW so that TLC keeps one representative per product    *)
(* state, the shortest one because the search is breadth first.           *)
(***************************************************************************)
EXTENDS Codec, TLC, VfEmit, Utf8Tbl        \* Utf8Tbl: UTF8D (sequence of 364), ImplAccept, ImplReject
VARIABLES ist, sst, w
vars == <<ist, sst, w>>
View == <<ist, sst>>

\* implementation step:  state' = UTF8D[256 + state + UTF8D[byte]]   (0-based in the code)
IStep(s, b) == UTF8D[256 + s + UTF8D[b + 1] + 1]

Init == ist = ImplAccept /\ sst = U8Acc /\ w = <<>>
Next == \E b \in Byte : ist' = IStep(ist, b) /\ sst' = U8Step(sst, b) /\ w' = Append(w, b)

TypeOK == ist \in 0..107 /\ sst[1] \in {0, 1, 2, 3, 9}
\* the implementation stops with "invalid" exactly when the definition is dead
RejectAgree == (ist = ImplReject) <=> (sst = U8Dead)
\* a message ending here is valid exactly when the implementation is in its accepting state
AcceptAgree == (ist = ImplAccept) <=> (sst = U8Acc)
\* dead stays dead (nothing is delivered after a malformed prefix)
DeadIsTrap == [][sst = U8Dead => sst' = U8Dead /\ ist' = ImplReject]_vars

\* spec -> code: per product state the witness and what the definition says about w \o <<b>>
Emit == EmitJson("W", <<w, sst = U8Acc, [b \in 1..256 |-> U8Step(sst, b - 1) = U8Acc]>>)
=============================================================================
