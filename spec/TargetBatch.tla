------------------------------ MODULE TargetBatch ------------------------------
(* One pass over recorded events of the real code: URL parsing, dial loops,       *)
(* no_proxy exemption, proxy decision, CONNECT tunnels (C18, C19).                *)
EXTENDS Target, Json, IOUtils, VfEmit
Trace == ndJsonDeserialize(IOEnv.TRACE_FILE)

UrlFaults(e) ==
  LET x == ExpectedTarget(e.c) IN
  IF ~x.valid THEN
       (IF e.got.kind # "ValueError" THEN {"C18.malformed_url_not_refused_with_ValueError"} ELSE {})
       \cup (IF e.got.network THEN {"C18.network_activity_before_refusing_url"} ELSE {})
  ELSE IF e.got.kind # "ok" THEN {"C18.valid_url_refused"}
  ELSE (IF e.got.host # x.host THEN {"C18.host"} ELSE {})
       \cup (IF e.got.port # x.port THEN {"C18.port"} ELSE {})
       \cup (IF e.got.resource # x.resource THEN {"C18.resource"} ELSE {})
       \cup (IF e.got.secure # x.secure THEN {"C18.tls_flag"} ELSE {})

ExemptFaults(e) ==
  IF Exempt(e.host, e.list) = e.got THEN {}
  ELSE IF e.got THEN {"C19.host_exempted_without_matching_entry"} ELSE {"C19.listed_host_not_exempted"}

Faults(e) ==
  CASE e.ev = "url"      -> UrlFaults(e)
    [] e.ev = "dial"     -> DialFaults(e)
    [] e.ev = "exempt"   -> ExemptFaults(e)
    [] e.ev = "decision" -> DecisionFaults(e)
    [] e.ev = "tunnel"   -> TunnelFaults(e)
    [] OTHER -> {"harness.unknown_event"}
Bad == {i \in 1..Len(Trace) : Faults(Trace[i]) # {}}
ASSUME EmitJson("BAD", [bad |-> {<<i, Faults(Trace[i])>> : i \in Bad}, n |-> Len(Trace)])
VARIABLE x
Init == x = 0
Next == UNCHANGED x
=============================================================================
