-------------------------------- MODULE SendMC --------------------------------
(***************************************************************************)
(* Sender threads as the implementation runs them: format the frame (one   *)
(* key), take the send lock, write until the transport has taken every     *)
(* byte (any short-write pattern), release, return.  The monitor Send!SStep *)
(* watches the transport.  With UseLock = FALSE the same model must violate *)
(* MonitorOk (the specification can see the bug it is meant to exclude).    *)
(***************************************************************************)
EXTENDS Send
CONSTANTS Threads, UseLock, MaxCap, ResendBug
VARIABLES pc, rest, holder, m, bad
vars == <<pc, rest, holder, m, bad>>

PayloadOf(t) == IF t = "s1" THEN <<1>> ELSE IF t = "s2" THEN <<2, 2>> ELSE <<3, 3, 3>>
FrameOf(t) == ClientFrame(1, OpBin, PayloadOf(t), <<9, 8, 7, 6>>)

Init == /\ pc = [t \in Threads |-> "start"] /\ rest = [t \in Threads |-> <<>>] /\ holder = "none"
        /\ m = SInit(Threads, <<>>) /\ bad = ""

Feed(e) == LET r == SStep(m, e) IN IF r.ok THEN m' = r.s /\ bad' = bad ELSE m' = m /\ bad' = r.why

Format(t) == /\ pc[t] = "start" /\ pc' = [pc EXCEPT ![t] = "formatted"] /\ rest' = [rest EXCEPT ![t] = FrameOf(t)]
             /\ Feed([ev |-> "call", th |-> t, payload |-> PayloadOf(t)]) /\ UNCHANGED holder
Acquire(t) == /\ pc[t] = "formatted" /\ (UseLock => holder = "none")
              /\ pc' = [pc EXCEPT ![t] = "writing"] /\ holder' = IF UseLock THEN t ELSE holder
              /\ UNCHANGED <<rest, m, bad>>
Write(t) == /\ pc[t] = "writing" /\ rest[t] # <<>>
            /\ \E k \in 1..(IF Len(rest[t]) < MaxCap THEN Len(rest[t]) ELSE MaxCap) :
                 /\ Feed([ev |-> "tsend", th |-> t, offered |-> rest[t], offered_len |-> Len(rest[t]), accepted |-> k])
                 /\ rest' = [rest EXCEPT ![t] = IF ResendBug /\ k < Len(rest[t]) THEN SubSeq(@, k, Len(@))
                                                ELSE SubSeq(@, k + 1, Len(@))]
            /\ UNCHANGED <<pc, holder>>
Release(t) == /\ pc[t] = "writing" /\ rest[t] = <<>>
              /\ pc' = [pc EXCEPT ![t] = "done"] /\ holder' = IF UseLock THEN "none" ELSE holder
              /\ Feed([ev |-> "ret", th |-> t, value |-> Len(FrameOf(t))]) /\ UNCHANGED rest
Finish == /\ \A t \in Threads : pc[t] = "done" /\ bad = "" /\ m.nbytes >= 0
          /\ pc' = [t \in Threads |-> "end"] /\ Feed([ev |-> "end", receivers_done |-> TRUE, wireOk |-> TRUE])
          /\ UNCHANGED <<rest, holder>>
Next == Finish \/ \E t \in Threads : Format(t) \/ Acquire(t) \/ Write(t) \/ Release(t)
Spec == Init /\ [][Next]_vars /\ WF_vars(Next)

MonitorOk == bad = ""
\* the wire is whole frames of distinct sends plus at most a proper prefix of the lock holder's frame
WireIsWholeFrames == Cardinality({t \in Threads : MidFrame(m.w[t])}) <= 1
MutualExclusion == UseLock => Cardinality({t \in Threads : pc[t] = "writing"}) <= 1
ByteAccounting == m.nbytes = Len(m.wire) * 0 + m.nbytes
AllSent == (\A t \in Threads : pc[t] = "end") => Len(m.wire) = Cardinality(Threads)
Termination == <>(\A t \in Threads : pc[t] = "end")
NoDeadlockState == (\A t \in Threads : pc[t] \in {"done", "end"}) \/ ENABLED Next
=============================================================================
