------------------------------- MODULE SendBatch -------------------------------
(***************************************************************************)
(* C01: every frame the real client wrote, judged against Codec.  One      *)
(* event per call:                                                         *)
(*   fin, op, n        requested FIN/opcode, payload length (UTF-8 length  *)
(*                     for text, from the harness's own encoder)           *)
(*   head              the first HdrLen(n)+4 bytes on the wire             *)
(*   payload, wire     complete payload and masked region for n <= 512,    *)
(*                     <<>> beyond                                         *)
(*   samples           <<i, payload[i], wire[i]>> (0-based i) for n > 512  *)
(*   bulkOk            harness decoder compared every other position       *)
(*   wireLen, ret      bytes handed to the transport; return value (-1 =   *)
(*                     the API returns nothing)                            *)
(*   draws             calls made to the key source: <<arg, value>>        *)
(*   keyKind           "default" | "bytes" | "str"                         *)
(*   writes            number of transport writes (free: C12's subject)    *)
(***************************************************************************)
EXTENDS Codec, Integers, Json, IOUtils, VfEmit, TLC
Trace == ndJsonDeserialize(IOEnv.TRACE_FILE)

SendFaults(e) ==
  LET hl == HdrLen(e.n)
      key == SubSeq(e.head, hl + 1, hl + 4)
  IN
  (IF Len(e.head) # hl + 4 \/ SubSeq(e.head, 1, hl) # Hdr(e.fin, 0, e.op, 1, e.n)
   THEN {"C01.header (fin/opcode/rsv/mask bit/shortest length form)"} ELSE {})
  \cup (IF e.keyKind = "default" /\ Len(e.draws) = 0 /\ e.keyVaries THEN {}   \* default source reached through another route than os.urandom: only freshness is observable
        ELSE IF Len(e.draws) # 1 THEN {"C01.key_drawn_once_per_frame"}
        ELSE IF e.draws[1][1] # 4 THEN {"C01.key_source_asked_for_4_bytes"}
        ELSE IF e.draws[1][2] # key THEN {"C01.key_on_wire_is_the_one_drawn"} ELSE {})
  \cup (IF "foreignDraws" \in DOMAIN e /\ e.foreignDraws > 0 THEN {"C01.key_source_of_another_connection_used"} ELSE {})
  \cup (IF e.wireLen # hl + 4 + e.n THEN {"C01.frame_length"} ELSE {})
  \cup (IF e.ret # -1 /\ e.ret # e.wireLen THEN {"C01.return_value"} ELSE {})
  \cup (IF e.n <= 512 /\ (Len(e.payload) # e.n \/ Len(e.wire) # e.n \/ (Len(e.head) = hl + 4 /\ e.wire # XorSeq(key, e.payload)))
        THEN {"C01.payload_masking"} ELSE {})
  \cup (IF e.n > 512 /\ Len(e.head) = hl + 4 /\
           (\E k \in 1..Len(e.samples) : e.samples[k][3] # (e.samples[k][2] ^^ key[(e.samples[k][1] % 4) + 1]))
        THEN {"C01.payload_masking"} ELSE {})
  \cup (IF ~e.bulkOk THEN {"C01.payload_recovered_by_independent_decoder"} ELSE {})

Bad == {i \in 1..Len(Trace) : SendFaults(Trace[i]) # {}}
ASSUME EmitJson("BAD", [bad |-> {<<i, SendFaults(Trace[i])>> : i \in Bad}, n |-> Len(Trace)])
VARIABLE x
Init == x = 0
Next == UNCHANGED x
=============================================================================
