------------------------------- MODULE VfEmit -------------------------------
(* One-line, machine-readable output from TLC: "@@TAG <json>".  *)
EXTENDS TLC, Json, Sequences
EmitJson(tag, v) == PrintT("@@" \o tag \o " " \o ToJson(v))
=============================================================================
