-------------------------------- MODULE Http --------------------------------
(***************************************************************************)
(* The opening handshake: the request the client must send for a target    *)
(* and an option set (C10), and when a response head makes connect()       *)
(* succeed (C09).  Strings are TLA+ strings; the harness parses the bytes  *)
(* on the wire with a strict, independent HTTP/1.1 parser and hands the    *)
(* request line and header lines to these operators.                       *)
(***************************************************************************)
EXTENDS Naturals, Sequences, FiniteSets, TLC

ToSet(s) == {s[i] : i \in 1..Len(s)}

(***************************************************************************)
(* C10.  t: [scheme, host, v6, port (0 = absent), path, query]             *)
(*       o: [host, origin, suppressOrigin, subprotocols, cookie,           *)
(*           headerLines (custom headers already rendered "k: v", None     *)
(*           values dropped), connection, jarCookie]      ("" = not given) *)
(***************************************************************************)
EffPort(t) == IF t.port # 0 THEN t.port ELSE IF t.scheme = "wss" THEN 443 ELSE 80
Pack(t) == IF t.v6 THEN "[" \o t.host \o "]" ELSE t.host
HostPort(t) == IF EffPort(t) \in {80, 443} THEN Pack(t) ELSE Pack(t) \o ":" \o ToString(EffPort(t))
Resource(t) == (IF t.path = "" THEN "/" ELSE t.path) \o (IF t.query = "" THEN "" ELSE "?" \o t.query)

RECURSIVE JoinWith(_, _)
JoinWith(ss, sep) == IF ss = <<>> THEN "" ELSE IF Len(ss) = 1 THEN ss[1]
                     ELSE ss[1] \o sep \o JoinWith(Tail(ss), sep)

RequestLine(t) == "GET " \o Resource(t) \o " HTTP/1.1"

CookieValue(o) == JoinWith(SelectSeq(<<o.jarCookie, o.cookie>>, LAMBDA x : x # ""), "; ")

RequestHeaders(t, o, key) ==
  {"Upgrade: websocket",
   "Host: " \o (IF o.host # "" THEN o.host ELSE HostPort(t)),
   "Sec-WebSocket-Key: " \o key,
   "Sec-WebSocket-Version: 13",
   IF o.connection # "" THEN o.connection ELSE "Connection: Upgrade"}
  \cup (IF o.suppressOrigin THEN {}
        ELSE {"Origin: " \o (IF o.origin # "" THEN o.origin
                             ELSE (IF t.scheme = "wss" THEN "https://" ELSE "http://") \o HostPort(t))})
  \cup (IF o.subprotocols # <<>> THEN {"Sec-WebSocket-Protocol: " \o JoinWith(o.subprotocols, ",")} ELSE {})
  \cup ToSet(o.headerLines)
  \cup (IF CookieValue(o) # "" THEN {"Cookie: " \o CookieValue(o)} ELSE {})

\* e: [t, o, line, headers (sequence of header lines as sent), key, keyIsB64Of16RandomBytes,
\*     syntaxOk (strict parse succeeded: CRLF only, one empty line at the end, one write),
\*     writes, serverAccepts]
RequestFaults(e) ==
  (IF ~e.syntaxOk THEN {"syntax"} ELSE {})
  \cup (IF e.line # RequestLine(e.t) THEN {"request_line"} ELSE {})
  \cup (IF ToSet(e.headers) # RequestHeaders(e.t, e.o, e.key) THEN {"headers"} ELSE {})
  \cup (IF Len(e.headers) # Cardinality(ToSet(e.headers)) THEN {"duplicate_header"} ELSE {})
  \cup (IF ~e.keyFresh THEN {"key"} ELSE {})
  \cup (IF e.serverChecked /\ ~e.serverAccepts THEN {"independent_server_rejects"} ELSE {})

(***************************************************************************)
(* C09.  h: [complete, status, upgrade, connection (token sequences, lower *)
(* case, trimmed), accept (class: "right" | anything else), subproto       *)
(* ("" absent | value), location (BOOLEAN)]                                *)
(***************************************************************************)
RedirectStatuses == {301, 302, 303, 307, 308}
Lower(s) == s   \* tokens and subprotocol names are lower-cased by the projection
Accepts(h, offered) ==
  /\ h.complete
  /\ h.status = 101
  /\ "websocket" \in ToSet(h.upgrade)
  /\ "upgrade" \in ToSet(h.connection)
  /\ h.accept = "right"
  /\ (offered # <<>> => h.subproto \in ToSet(offered))
IsRedirect(h) == h.complete /\ h.status \in RedirectStatuses
=============================================================================
