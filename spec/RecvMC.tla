------------------------------- MODULE RecvMC -------------------------------
(***************************************************************************)
(* Model checking the receive machine: for every stream built from a small *)
(* frame alphabet, every way the transport can cut it (at the granularity  *)
(* of the machine's own read requests), timeouts at any point, EOF at the  *)
(* end, and every API, the observable history never leaves the frame-level *)
(* oracle (C03), messages are reassembled exactly (C04), illegal frames    *)
(* are rejected exactly where an independent legality scan says (C05),     *)
(* pongs mirror pings in order (C07), nothing is lost before EOF.          *)
(***************************************************************************)
EXTENDS Recv
CONSTANTS FrameSet,      \* set of server frames (byte sequences)
          MaxFrames,     \* streams = 1..MaxFrames frames
          Apis,          \* set of <<api, control>>
          FireConts, SkipUtf8s,
          MaxTimeouts,
          Tails          \* set of trailing garbage (incomplete frame prefixes) appended to streams
VARIABLES st, api, nto
vars == <<st, api, nto>>

RECURSIVE Flatten(_)
Flatten(ss) == IF ss = <<>> THEN <<>> ELSE Head(ss) \o Flatten(Tail(ss))
Streams == {Flatten(fs) \o t : fs \in UNION {[1..k -> FrameSet] : k \in 1..MaxFrames}, t \in Tails}

Init == \E str \in Streams, a \in Apis, fc \in FireConts, su \in SkipUtf8s :
          st = InitState(str, fc, su) /\ api = a /\ nto = 0

Min(a, b) == IF a < b THEN a ELSE b
Key0 == <<17, 34, 51, 68>>

OutEvent(s) ==
  LET d == Head(s.due) IN
  IF d.k = "send" THEN [ev |-> "tsend", bytes |-> ClientFrame(1, d.op, d.data, Key0)]
  ELSE IF d.k = "ret" THEN
     IF RecvCannotDecode(s, d)
     THEN [ev |-> "raise", cls |-> "WebSocketPayloadException", doc |-> TRUE, terr |-> FALSE,
           sock_none |-> ~s.sockOpen, connected |-> s.connected, tclosed |-> ~s.sockOpen]
     ELSE [ev |-> "ret", op |-> d.op, fin |-> d.fin,
           data |-> IF s.call.api = "recv" /\ d.op \notin {OpText, OpBin} THEN <<>> ELSE d.data,
           kind |-> IF d.op = OpBin THEN "bytes" ELSE "text", connected |-> s.connected]
  ELSE [ev |-> "raise", cls |-> ClsOf(d.cls), doc |-> d.cls # "Transport", terr |-> d.cls = "Transport",
        sock_none |-> ~s.sockOpen, connected |-> s.connected, tclosed |-> ~s.sockOpen]

Events(s) ==
  IF s.due # <<>> THEN {OutEvent(s)}
  ELSE IF ~s.call.active THEN
     IF s.failed \/ (~s.sockOpen /\ Len(s.hist) > 0 /\ s.hist[Len(s.hist)] = <<"raise", "Closed">>
                     /\ Len(s.hist) > 1 /\ s.hist[Len(s.hist) - 1] = <<"raise", "Closed">>)
     THEN {}
     ELSE {[ev |-> "call", api |-> api[1], control |-> api[2]]}
  ELSE \* a call is waiting for the transport
     LET short == Shortage(s)
         req == IF short = 0 THEN 1 ELSE Min(16384, short)
         avail == Len(s.stream) - s.taken
     IN {[ev |-> "trecv", req |-> req, got |-> g, pos |-> s.taken] : g \in 1..Min(req, avail)}
        \cup (IF nto < MaxTimeouts THEN {[ev |-> "ttimeout", req |-> req]} ELSE {})
        \cup (IF avail = 0 THEN {[ev |-> "teof", req |-> req]} ELSE {})

Next == \E e \in Events(st) :
          LET r == Step(st, e) IN
            /\ r.ok
            /\ st' = r.s
            /\ api' = api
            /\ nto' = IF e.ev = "ttimeout" THEN nto + 1 ELSE nto

Spec == Init /\ [][Next]_vars

\* the machine accepts every event the model produces (Step is total and self-consistent)
StepAccepts == \A e \in Events(st) : Step(st, e).ok

TheOracle == Oracle(st.stream, st.fireCont, st.skipUtf8, api[1], api[2])

\* C03: whatever the cutting and the timeouts, the observations are a prefix of the oracle
\* (transport-level endings - timeout, loss - are not part of the oracle and are filtered)
Filtered(h) == SelectSeq(h, LAMBDA x : ~(x[1] = "raise" /\ x[2] \in {"Timeout", "Closed", "Transport"}))
SegIndep == IsPrefixOf(Filtered(st.hist), TheOracle)

\* C03: nothing lost or duplicated
Conservation == st.fpos - 1 <= st.taken /\ st.taken <= Len(st.stream)

\* C03: when the end of the stream is reported everything the oracle promises has been observed
NoLoss == (st.eof /\ ~st.failed /\ st.due # <<>>) => Filtered(st.hist) = TheOracle

\* C04 (second formulation)
ReassemblyExact ==
  (~st.fireCont /\ api[1] # "recv_frame") =>
     \* (a text message that is refused as ill-formed is skipped; everything else is delivered in order)
     IsPrefixOf(DeliveredMsgs(st.hist),
                SelectSeq(MsgsOf(Frames(st.stream), 0, <<>>),
                          LAMBDA m : ~(m[1] = OpText /\ ~st.skipUtf8 /\ ~WellFormedUtf8(m[2]))))

\* C05 (second formulation): an independent scan for the first illegal frame
RECURSIVE FirstIllegal(_, _, _, _)
FirstIllegal(fs, i, inMsg, skip) ==
  IF fs = <<>> THEN 0
  ELSE LET f == Head(fs) IN
    IF ~LegalFrame(f, skip) THEN i
    ELSE IF f.op = OpCont /\ ~inMsg THEN i
    ELSE IF f.op \in {OpText, OpBin} /\ inMsg THEN i
    ELSE FirstIllegal(Tail(fs), i + 1, IF f.op \in DataOps THEN f.fin = 0 ELSE inMsg, skip)
RejectIffIllegal ==
  api[1] # "recv_frame" =>
    LET fi == FirstIllegal(Frames(st.stream), 1, FALSE, st.skipUtf8) IN
      /\ (st.faults # <<>> => st.faults[1][1] = fi)
      /\ (fi # 0 /\ st.nframes >= fi => st.faults # <<>>)

\* C07
PongsMirrorPings == IsPrefixOf(st.pongs, st.pings) /\ Len(st.pings) - Len(st.pongs) <= 1
PongBeforeRead == [][(st.due # <<>> /\ Head(st.due).k = "send") => st'.taken = st.taken]_vars

\* C08 fragment: at most one close reply, connection flagged closed with it
CloseReplyOnce == st.closeReplies <= 1 /\ (st.closeReplies = 1 => ~st.connected)

\* C17: the machine is total over arbitrary bytes - it only stops after a failure or after the loss
\* of the connection has been reported; every request is bounded
Total == Events(st) = {} => (st.failed \/ ~st.sockOpen)
ReqBounded == \A e \in Events(st) : e.ev = "trecv" => e.req <= 16384

\* reachability witnesses (must be VIOLATED: vacuity guard, checked by a separate run)
W_Reassembled == ~(\E i \in 1..Len(st.hist) : st.hist[i][1] = "ret" /\ st.hist[i][2] = OpText /\ Len(st.hist[i][4]) >= 2 /\ st.nframes >= 2)
W_Protocol == ~(\E i \in 1..Len(st.hist) : st.hist[i] = <<"raise", "Protocol">>)
W_Pong == st.pongs = <<>>
=============================================================================
