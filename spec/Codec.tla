------------------------------- MODULE Codec -------------------------------
(***************************************************************************)
(* RFC 6455 framing as pure operators over sequences of bytes (0..255).    *)
(* Used by every other module: Send/Recv/Conn/App take their notion of a   *)
(* frame, of a legal frame, of a close body and of well-formed UTF-8 from  *)
(* here.  Encoder (Hdr/ClientFrame/ServerFrame) and decoder (Parse) are    *)
(* written independently of each other; CodecMC checks that they agree.    *)
(***************************************************************************)
EXTENDS Naturals, Sequences, FiniteSets, Bitwise

Byte     == 0..255
Opcodes  == {0, 1, 2, 8, 9, 10}
DataOps  == {0, 1, 2}
CtlOps   == {8, 9, 10}
OpCont   == 0
OpText   == 1
OpBin    == 2
OpClose  == 8
OpPing   == 9
OpPong   == 10

(***************************************************************************)
(* Encoding.  Shortest legal length form: 7-bit up to 125, 16-bit up to    *)
(* 65535, 64-bit beyond (TLC integers are 32 bit: n < 2^31 here, the upper *)
(* four length bytes are therefore 0).                                     *)
(***************************************************************************)
LenBytes(n) ==
  IF n <= 125 THEN <<n>>
  ELSE IF n <= 65535 THEN <<126, n \div 256, n % 256>>
  ELSE <<127, 0, 0, 0, 0, (n \div 16777216) % 256, (n \div 65536) % 256,
         (n \div 256) % 256, n % 256>>

Hdr(fin, rsv, op, masked, n) ==
  <<fin * 128 + rsv * 16 + op, masked * 128 + LenBytes(n)[1]>> \o Tail(LenBytes(n))

HdrLen(n) == IF n <= 125 THEN 2 ELSE IF n <= 65535 THEN 4 ELSE 10

XorSeq(key, p) == [i \in 1..Len(p) |-> p[i] ^^ key[((i - 1) % 4) + 1]]

ClientFrame(fin, op, payload, key) ==
  Hdr(fin, 0, op, 1, Len(payload)) \o key \o XorSeq(key, payload)

ServerFrame(fin, rsv, op, payload) == Hdr(fin, rsv, op, 0, Len(payload)) \o payload

(***************************************************************************)
(* Decoding at position p (1-based) of a byte sequence s.  Result record:  *)
(*   ok      the whole frame lies inside s                                 *)
(*   need    otherwise: how many bytes of s are needed to know more        *)
(*   huge    declared length >= 2^30 (TLC integers are 32 bit)        *)
(***************************************************************************)
NoFrame(need, huge) ==
  [ok |-> FALSE, need |-> need, huge |-> huge, fin |-> 0, rsv |-> 0, op |-> 0, masked |-> 0,
   len |-> 0, form |-> 0, key |-> <<>>, payload |-> <<>>, next |-> 0]

(* lim = number of bytes of s that are available (bytes beyond lim are not looked at) *)
ParseL(s, p, lim) ==
  IF lim < p + 1 THEN NoFrame(p + 1, FALSE)
  ELSE
    LET b1 == s[p]
        b2 == s[p + 1]
        l7 == b2 % 128
        mk == b2 \div 128
        ext == IF l7 = 126 THEN 2 ELSE IF l7 = 127 THEN 8 ELSE 0
    IN IF lim < p + 1 + ext THEN NoFrame(p + 1 + ext, FALSE)
       ELSE
         LET huge == l7 = 127 /\ (s[p+2] # 0 \/ s[p+3] # 0 \/ s[p+4] # 0 \/ s[p+5] # 0 \/ s[p+6] >= 64)
             n == IF l7 = 126 THEN s[p+2] * 256 + s[p+3]
                  ELSE IF l7 = 127 /\ ~huge
                       THEN ((s[p+6] * 256 + s[p+7]) * 256 + s[p+8]) * 256 + s[p+9]
                  ELSE IF l7 = 127 THEN 0 ELSE l7
             ks == p + 2 + ext            \* first key byte (if masked)
             ps == ks + 4 * mk            \* first payload byte
         IN IF huge THEN NoFrame(0, TRUE)
            ELSE IF lim < ps + n - 1 THEN NoFrame(ps + n - 1, FALSE)
            ELSE
              LET key == IF mk = 1 THEN SubSeq(s, ks, ks + 3) ELSE <<>>
                  raw == SubSeq(s, ps, ps + n - 1)
              IN [ok |-> TRUE, need |-> 0, huge |-> FALSE,
                  fin |-> b1 \div 128, rsv |-> (b1 \div 16) % 8, op |-> b1 % 16,
                  masked |-> mk, len |-> n, form |-> ext, key |-> key,
                  payload |-> IF mk = 1 THEN XorSeq(key, raw) ELSE raw,
                  next |-> ps + n]

Parse(s, p) == ParseL(s, p, Len(s))

(* All complete frames of a stream, in order, and the position after the last one. *)
RECURSIVE FramesFrom(_, _)
FramesFrom(s, p) ==
  LET f == Parse(s, p) IN IF f.ok THEN <<f>> \o FramesFrom(s, f.next) ELSE <<>>
Frames(s) == FramesFrom(s, 1)

(***************************************************************************)
(* Well-formed UTF-8 exactly as the Unicode standard defines it (Table     *)
(* 3-7), as a DFA whose state says how many continuation bytes are owed    *)
(* and which range the next one must come from.  Written from the table,   *)
(* not from the implementation's automaton.                                *)
(***************************************************************************)
U8Acc  == <<0, 0, 0>>
U8Dead == <<9, 0, 0>>
U8Step(s, b) ==
  IF s = U8Dead THEN U8Dead
  ELSE IF s[1] = 0 THEN
     IF b <= 127 THEN U8Acc
     ELSE IF b >= 194 /\ b <= 223 THEN <<1, 128, 191>>
     ELSE IF b = 224 THEN <<2, 160, 191>>
     ELSE IF (b >= 225 /\ b <= 236) \/ b = 238 \/ b = 239 THEN <<2, 128, 191>>
     ELSE IF b = 237 THEN <<2, 128, 159>>
     ELSE IF b = 240 THEN <<3, 144, 191>>
     ELSE IF b >= 241 /\ b <= 243 THEN <<3, 128, 191>>
     ELSE IF b = 244 THEN <<3, 128, 143>>
     ELSE U8Dead
  ELSE IF b >= s[2] /\ b <= s[3]
       THEN (IF s[1] = 1 THEN U8Acc ELSE <<s[1] - 1, 128, 191>>)
  ELSE U8Dead

RECURSIVE U8Run(_, _, _)
U8Run(st, s, i) == IF i > Len(s) THEN st ELSE U8Run(U8Step(st, s[i]), s, i + 1)
WellFormedUtf8(s) == U8Run(U8Acc, s, 1) = U8Acc

(***************************************************************************)
(* Close frames.                                                           *)
(***************************************************************************)
WireCloseCodes == (1000..1003) \cup (1007..1014) \cup (3000..4999)
CloseBody(status, reason) == <<status \div 256, status % 256>> \o reason
CloseStatus(body) == body[1] * 256 + body[2]

(***************************************************************************)
(* Frame-level legality for frames a server sends (property C05, the       *)
(* stateless part).  Returns the set of clause names the frame breaks.     *)
(***************************************************************************)
FrameFaults(f, skipUtf8) ==
  (IF f.rsv # 0 THEN {"rsv"} ELSE {})
  \cup (IF f.op \notin Opcodes THEN {"opcode"} ELSE {})
  \cup (IF f.op \in CtlOps /\ f.fin = 0 THEN {"ctl_fragmented"} ELSE {})
  \cup (IF f.op \in CtlOps /\ f.len > 125 THEN {"ctl_too_long"} ELSE {})
  \cup (IF f.op = OpClose /\ f.len = 1 THEN {"close_len1"} ELSE {})
  \cup (IF f.op = OpClose /\ f.len >= 2 /\ f.len <= 125 /\ CloseStatus(f.payload) \notin WireCloseCodes
        THEN {"close_code"} ELSE {})
  \cup (IF f.op = OpClose /\ f.len > 2 /\ f.len <= 125 /\ ~skipUtf8
           /\ ~WellFormedUtf8(SubSeq(f.payload, 3, f.len))
        THEN {"close_reason_utf8"} ELSE {})

LegalFrame(f, skipUtf8) == FrameFaults(f, skipUtf8) = {}
=============================================================================
