------------------------------ MODULE CodecMC ------------------------------
(* Guards the specification's own codec: the encoder and the independently  *)
(* written decoder invert each other, the length form is the shortest one,  *)
(* for every opcode x FIN x length class x key.                              *)
EXTENDS Codec, TLC
CONSTANTS Lens, Keys
VARIABLES fin, op, n, key, masked
vars == <<fin, op, n, key, masked>>
Payload(k) == [i \in 1..k |-> (i * 7 + 3) % 256]
Init == fin \in {0, 1} /\ op \in Opcodes /\ n \in Lens /\ key \in Keys /\ masked \in {0, 1}
Next == UNCHANGED vars
Wire == IF masked = 1 THEN ClientFrame(fin, op, Payload(n), key)
        ELSE ServerFrame(fin, 0, op, Payload(n))
Small == n <= 300
\* large payloads: header and key only (the payload bytes are compared by the conformance run)
HeadOnly == Hdr(fin, 0, op, masked, n) \o (IF masked = 1 THEN key ELSE <<>>)
HeaderExact ==
  LET f == Parse(HeadOnly, 1) IN
    n > 0 => (~f.ok /\ ~f.huge /\ f.need = Len(HeadOnly) + n /\ Len(HeadOnly) = HdrLen(n) + 4 * masked)
RoundTrip == Small =>
  LET f == Parse(Wire, 1) IN
    /\ f.ok /\ f.fin = fin /\ f.op = op /\ f.rsv = 0 /\ f.masked = masked
    /\ f.len = n /\ f.payload = Payload(n) /\ f.next = Len(Wire) + 1
    /\ (masked = 1 => f.key = key)
Shortest == Small =>
  LET f == Parse(Wire, 1) IN
    /\ (n <= 125 <=> f.form = 0)
    /\ (n > 125 /\ n <= 65535 <=> f.form = 2)
    /\ (n > 65535 <=> f.form = 8)
ShortestHeader == Len(Hdr(fin, 0, op, masked, n)) = (IF n <= 125 THEN 2 ELSE IF n <= 65535 THEN 4 ELSE 10)
Prefixes == Small => \A k \in 0..(IF Len(Wire) > 14 THEN 14 ELSE Len(Wire) - 1) : ~Parse(SubSeq(Wire, 1, k), 1).ok
=============================================================================
