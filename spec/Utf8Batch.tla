----------------------------- MODULE Utf8Batch -----------------------------
(* code -> spec: verdicts of the real validate_utf8 on recorded strings are *)
(* checked against the Unicode definition, one TLC pass over the file.      *)
EXTENDS Codec, TLC, Json, IOUtils, VfEmit
Trace == ndJsonDeserialize(IOEnv.TRACE_FILE)
Ok(e) == e.valid = WellFormedUtf8(e.bytes)
Bad == {i \in 1..Len(Trace) : ~Ok(Trace[i])}
ASSUME EmitJson("BAD", <<Bad, Len(Trace)>>)
VARIABLE x
Init == x = 0
Next == UNCHANGED x
=============================================================================
