------------------------------ MODULE ConnectMC ------------------------------
(* All chains of response heads (class product) against every redirect limit:  *)
(* the machine's own design satisfies C09's invariants.                        *)
EXTENDS ConnectM
CONSTANTS Limits, MaxChain, Offers
VARIABLES s, nkey
vars == <<s, nkey>>

Statuses == {101, 200, 302, 307, 404}
Toks == {<<>>, <<"websocket">>, <<"foo", "websocket">>, <<"websocketx">>}
CToks == {<<>>, <<"upgrade">>, <<"keep-alive", "upgrade">>}
Heads == [complete : BOOLEAN, status : Statuses, upgrade : Toks, connection : CToks,
          accept : {"right", "wrong", "missing", "prevkey", "caseswapped"},
          subproto : {"", "a", "c"}, location : BOOLEAN, free : {FALSE}]

Init == \E l \in Limits, o \in Offers : s = CInit(l, o) /\ nkey = 0

\* the implementation side as the specification intends it
Next ==
  \/ /\ ~s.done /\ s.attempts = 0
     /\ LET r == CStep(s, [ev |-> "attempt", key |-> nkey, prevClosed |-> TRUE]) IN r.ok /\ s' = r.s
     /\ nkey' = nkey + 1
  \/ /\ ~s.done /\ s.attempts > 0 /\ ~s.haveHead
     /\ \E h \in Heads : LET r == CStep(s, [ev |-> "head", h |-> h]) IN r.ok /\ s' = r.s
     /\ nkey' = nkey
  \/ /\ ~s.done /\ s.haveHead /\ s.attempts < MaxChain
     /\ IsRedirect(s.head) /\ s.head.location /\ s.followups < s.limit
     /\ LET r == CStep(s, [ev |-> "attempt", key |-> nkey, prevClosed |-> TRUE]) IN r.ok /\ s' = r.s
     /\ nkey' = nkey + 1
  \/ /\ ~s.done /\ s.haveHead
     /\ ~(IsRedirect(s.head) /\ s.head.location /\ s.followups < s.limit /\ s.attempts < MaxChain)
     /\ LET ok == Accepts(s.head, s.offered)
            e == [ev |-> "outcome", kind |-> IF ok THEN "returned" ELSE "raised", doc |-> TRUE, terr |-> FALSE,
                  connected |-> ok, sockNone |-> ~ok, open |-> IF ok THEN 1 ELSE 0, cls |-> "x"]
            r == CStep(s, e) IN r.ok /\ s' = r.s
     /\ nkey' = nkey

ConnectedOnlyIfValid == s.result = "returned" => Accepts(s.head, s.offered)
RedirectNeverSuccess == s.result = "returned" => s.head.status \notin RedirectStatuses
RedirectsBounded == s.followups <= s.limit
FreshKeys == Cardinality(ToSet(s.keys)) = Len(s.keys)
Progress == ~s.done => ENABLED Next
W_Connected == s.result # "returned"
W_Followed == s.followups < 2
=============================================================================
