#!/venv/bin/python
"""Evaluate a seeded change:  tools/seedtest.py <property id> <dir with patch.diff + demo.py> [--keep-as NAME] [--all] [--update-meta]

1. scratch copy of /repo under /tmp (outside /repo and /verif), patch applied there;
2. the repository's test suite must still pass (38 passed);
3. the demonstration must fail with the patch and pass without it;
4. ./check <id> quick (VERIF_REPO = the scratch copy) must report a VIOLATION; with --all every claimed check is run;
5. the scratch copy is removed.  With --keep-as the seed is copied to /verif/seeded/<NAME>/ with meta.json."""
import json
import os
import re
import shutil
import subprocess
import sys

VERIF = os.path.dirname(os.path.dirname(os.path.abspath(__file__)))
SCR = "/tmp/seedrun_%d" % os.getpid()


def sh(cmd, cwd=None, env=None, timeout=3600):
    p = subprocess.run(cmd, shell=True, cwd=cwd, env=env, stdout=subprocess.PIPE, stderr=subprocess.STDOUT, text=True, timeout=timeout)
    return p.returncode, p.stdout


def main():
    pid, seed = sys.argv[1], os.path.abspath(sys.argv[2])
    keep = sys.argv[sys.argv.index("--keep-as") + 1] if "--keep-as" in sys.argv else None
    run_all = "--all" in sys.argv
    res = {"property": pid, "seed_dir": seed}
    shutil.rmtree(SCR, ignore_errors=True)
    shutil.copytree("/repo", SCR, ignore=shutil.ignore_patterns(".git", "__pycache__"))
    try:
        sd = os.path.join(SCR, "seedx")
        os.makedirs(sd)
        shutil.copy(os.path.join(seed, "demo.py"), sd)
        for extra in os.listdir(seed):
            if extra not in ("patch.diff", "demo.py", "notes.md", "meta.json") and os.path.isfile(os.path.join(seed, extra)):
                shutil.copy(os.path.join(seed, extra), sd)
        rc0, out0 = sh("/venv/bin/python seedx/demo.py", cwd=SCR, timeout=300)
        res["demo_without_patch_rc"] = rc0
        rc, out = sh("git apply --whitespace=nowarn %s" % os.path.join(seed, "patch.diff"), cwd=SCR)
        if rc != 0:
            rc, out = sh("patch -p1 < %s" % os.path.join(seed, "patch.diff"), cwd=SCR)
        res["patch_applies"] = rc == 0
        if rc != 0:
            res["patch_error"] = out[-400:]
        rc, out = sh("/venv/bin/python -m pytest -q -p no:cacheprovider websocket/tests", cwd=SCR, timeout=600)
        m = re.search(r"(\d+) passed", out)
        res["tests_passed"] = int(m.group(1)) if m else 0
        res["tests_failed"] = "failed" in out.splitlines()[-1] if out.strip() else True
        rc1, out1 = sh("/venv/bin/python seedx/demo.py", cwd=SCR, timeout=300)
        res["demo_with_patch_rc"] = rc1
        res["demo_with_patch_msg"] = out1.strip().splitlines()[-1][:300] if out1.strip() else ""
        shutil.rmtree(sd, ignore_errors=True)
        env = dict(os.environ, VERIF_REPO=SCR, VERIF_SCRATCH=SCR + "_scratch")
        ids = [pid]
        if run_all:
            man = json.load(open(os.path.join(VERIF, "MANIFEST.json")))
            ids = [c["property_id"] for c in man["checks"]]
        res["checks"] = {}
        for i in ids:
            rc, out = sh("./check %s quick" % i, cwd=VERIF, env=env, timeout=3600)
            viol = [l for l in out.splitlines() if l.startswith("VIOLATION")]
            detail = ""
            for k, l in enumerate(out.splitlines()):
                if l.startswith("VIOLATION") and k + 1 < len(out.splitlines()):
                    detail = out.splitlines()[k + 1].strip()[:300]
                    break
            res["checks"][i] = {"rc": rc, "violations": len(viol), "first": detail,
                                "machinery_error": ("MACHINERY-ERROR" in out)}
        res["caught_by_own_check"] = res["checks"][pid]["rc"] == 1 and res["checks"][pid]["violations"] > 0
    finally:
        shutil.rmtree(SCR, ignore_errors=True)
        shutil.rmtree(SCR + "_scratch", ignore_errors=True)
    # evidence files were rewritten by runs against the mutated tree: they must come from /repo itself
    res["valid_seed"] = bool(res.get("patch_applies") and res.get("tests_passed") == 38 and not res.get("tests_failed")
                             and res.get("demo_without_patch_rc") == 0 and res.get("demo_with_patch_rc") not in (0, None))
    print(json.dumps(res, indent=1))
    if "--update-meta" in sys.argv:          # re-evaluation of a seed kept under /verif/seeded: only meta.json is rewritten
        keep = os.path.basename(seed)
    if keep:
        dst = os.path.join(VERIF, "seeded", keep)
        if os.path.abspath(dst) != seed:
            shutil.rmtree(dst, ignore_errors=True)
            os.makedirs(dst)
            for f in os.listdir(seed):
                if os.path.isfile(os.path.join(seed, f)):
                    shutil.copy(os.path.join(seed, f), dst)
        notes = ""
        if os.path.exists(os.path.join(seed, "notes.md")):
            notes = open(os.path.join(seed, "notes.md")).read()
        meta = {"property": pid, "needs_to_manifest": notes[:1500],
                "what_was_run": ["scratch copy of /repo + patch", "pytest websocket/tests -> %s passed" % res.get("tests_passed"),
                                 "demo.py without patch rc=%s, with patch rc=%s" % (res.get("demo_without_patch_rc"), res.get("demo_with_patch_rc")),
                                 "./check %s quick with VERIF_REPO=<scratch>" % pid],
                "result": res}
        json.dump(meta, open(os.path.join(dst, "meta.json"), "w"), indent=1)
    return 0


if __name__ == "__main__":
    sys.exit(main())
