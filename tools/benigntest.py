#!/venv/bin/python
"""False-alarm test:  tools/benigntest.py <dir with patch.diff> [check ids...]
Applies a (supposedly) behaviour-preserving refactoring to a scratch copy of /repo, runs the repository's
tests and every claimed check (quick) against it.  Every check must stay silent."""
import json
import os
import re
import shutil
import subprocess
import sys

VERIF = os.path.dirname(os.path.dirname(os.path.abspath(__file__)))
SCR = "/tmp/benign_%d" % os.getpid()


def sh(cmd, cwd=None, env=None, timeout=7200):
    p = subprocess.run(cmd, shell=True, cwd=cwd, env=env, stdout=subprocess.PIPE, stderr=subprocess.STDOUT, text=True, timeout=timeout)
    return p.returncode, p.stdout


def main():
    d = os.path.abspath(sys.argv[1])
    ids = sys.argv[2:]
    if not ids:
        man = json.load(open(os.path.join(VERIF, "MANIFEST.json")))
        ids = [c["property_id"] for c in man["checks"]]
    shutil.rmtree(SCR, ignore_errors=True)
    shutil.copytree("/repo", SCR, ignore=shutil.ignore_patterns(".git", "__pycache__"))
    res = {"dir": d, "checks": {}}
    try:
        rc, out = sh("git apply --whitespace=nowarn %s" % os.path.join(d, "patch.diff"), cwd=SCR)
        res["patch_applies"] = rc == 0
        rc, out = sh("/venv/bin/python -m pytest -q -p no:cacheprovider websocket/tests", cwd=SCR, timeout=600)
        m = re.search(r"(\d+) passed", out)
        res["tests_passed"] = int(m.group(1)) if m else 0
        env = dict(os.environ, VERIF_REPO=SCR, VERIF_SCRATCH=SCR + "_scratch")
        for i in ids:
            rc, out = sh("./check %s quick" % i, cwd=VERIF, env=env)
            lines = out.splitlines()
            first = ""
            for k, l in enumerate(lines):
                if l.startswith("VIOLATION") and k + 1 < len(lines):
                    first = lines[k + 1].strip()[:400]
                    break
            me = [l for l in lines if l.startswith("MACHINERY-ERROR")]
            res["checks"][i] = {"rc": rc, "first": first, "machinery": me[0][:300] if me else ""}
    finally:
        shutil.rmtree(SCR, ignore_errors=True)
        shutil.rmtree(SCR + "_scratch", ignore_errors=True)
    print(json.dumps(res, indent=1))


if __name__ == "__main__":
    main()
