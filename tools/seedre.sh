#!/bin/sh
# usage: tools/seedre.sh '<glob under seeded/>'   e.g.  tools/seedre.sh 'C*_seed[45]'
# re-evaluates the seeds kept under /verif/seeded (4 at a time) against the current /repo and checks; rewrites meta.json
cd /verif
mkdir -p build/seeds
ls -d seeded/$1 | xargs -P 4 -I{} sh -c '
d={}; k=$(basename $d); id=$(echo $k | cut -d_ -f1)
tools/seedtest.py $id $d --update-meta > build/seeds/$k.json 2>build/seeds/$k.err'
/venv/bin/python - "$1" <<'PY'
import json,glob,sys,fnmatch,os
ok=0; n=0
for f in sorted(glob.glob("/verif/build/seeds/*.json")):
    name=os.path.basename(f)[:-5]
    if not fnmatch.fnmatch(name, sys.argv[1]): continue
    try:
        r=json.load(open(f)); c=r["checks"][r["property"]]; n+=1; ok+=r["caught_by_own_check"]
        print(name, "valid" if r["valid_seed"] else "INVALID(apply=%s t=%s d0=%s d1=%s)"%(r.get("patch_applies"),r.get("tests_passed"),r.get("demo_without_patch_rc"),r.get("demo_with_patch_rc")), "CAUGHT" if r["caught_by_own_check"] else "MISSED rc=%s"%c["rc"], "|", c["first"][:110])
    except Exception as e:
        print(f, "ERROR", e)
print("caught %d of %d"%(ok,n))
PY
