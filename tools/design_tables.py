#!/venv/bin/python
"""Prints the markdown tables of DESIGN.md 6a / 6b from known_findings.json and seeded/*/meta.json:
   tools/design_tables.py findings | seeds <glob>"""
import fnmatch
import glob
import json
import os
import re
import sys

V = os.path.dirname(os.path.dirname(os.path.abspath(__file__)))


def findings():
    d = json.load(open(os.path.join(V, "known_findings.json")))
    print("| property | status | clause that failed | what failed |\n|---|---|---|---|")
    for f in d["findings"]:
        what = re.sub(r"^fixed: property=\S+ \S+ ", "", f["what"])
        st = "fixed %s" % f["commit"] if f["status"] == "fixed" else "open"
        print("| %s | %s | %s | %s |" % (f["property"], st, f.get("clause", ""), what.replace("|", "\\|")))


def seeds(pat):
    print("| seed | change (first line of the author's note) | clause that caught it | caught |\n|---|---|---|---|")
    for d in sorted(glob.glob(os.path.join(V, "seeded", "*"))):
        name = os.path.basename(d)
        if not fnmatch.fnmatch(name, pat) or not os.path.exists(os.path.join(d, "meta.json")):
            continue
        m = json.load(open(os.path.join(d, "meta.json")))
        r = m["result"]
        note = [l.strip() for l in m.get("needs_to_manifest", "").splitlines() if l.strip() and not l.startswith("#")]
        first = (note[0] if note else "")[:150].replace("|", "\\|")
        c = r["checks"][r["property"]]
        cl = re.search(r"(C\d\d\.[A-Za-z_0-9]+)", c.get("first", ""))
        clause = cl.group(1) if cl else c.get("first", "")[:50].replace("|", "\\|")
        how = "yes" if r["caught_by_own_check"] else ("seed no longer manifests" if not r["valid_seed"] else "NO")
        print("| %s | %s | %s | %s |" % (name, first, clause, how))


if __name__ == "__main__":
    if sys.argv[1] == "findings":
        findings()
    else:
        seeds(sys.argv[2])
