#!/bin/sh
# usage: tools/seedsum.sh '<glob>'  - one line per evaluated seed in build/seeds
cd /verif
/venv/bin/python - "$1" <<'PY' 2>&1 | grep -v WARNING
import json,glob,sys,fnmatch,os
ok=n=0
for f in sorted(glob.glob("/verif/build/seeds/*.json")):
    name=os.path.basename(f)[:-5]
    if not fnmatch.fnmatch(name, sys.argv[1]): continue
    try:
        r=json.load(open(f)); c=r["checks"][r["property"]]; n+=1; ok+=r["caught_by_own_check"]
        print(name, "valid" if r["valid_seed"] else "INVALID(apply=%s t=%s d0=%s d1=%s)"%(r.get("patch_applies"),r.get("tests_passed"),r.get("demo_without_patch_rc"),r.get("demo_with_patch_rc")), "CAUGHT" if r["caught_by_own_check"] else "MISSED rc=%s%s"%(c["rc"], " MACHINERY" if c.get("machinery_error") else ""), "|", c["first"][:120])
    except Exception as e:
        print(name, "ERROR", str(e)[:60])
print("caught %d of %d"%(ok,n))
PY
