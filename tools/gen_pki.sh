#!/bin/sh
# Offline test PKI for C11 (openssl CLI only): a CA, leaves for good.test and other.test signed by it,
# self-signed leaves for the same names, a hashed CA directory.   usage: gen_pki.sh <dir>
set -e
D=${1:-/verif/build/pki}
mkdir -p "$D" && cd "$D"
[ -f done ] && exit 0
gen() { openssl ecparam -name prime256v1 -genkey -noout -out "$1.key" 2>/dev/null; }
gen ca
openssl req -x509 -new -key ca.key -sha256 -days 3650 -subj "/CN=Verif Test CA" -out ca.pem \
  -addext "basicConstraints=critical,CA:TRUE" -addext "keyUsage=critical,keyCertSign,cRLSign" 2>/dev/null
for n in good other; do
  gen $n
  openssl req -new -key $n.key -subj "/CN=$n.test" -out $n.csr 2>/dev/null
  printf "subjectAltName=DNS:$n.test\nbasicConstraints=CA:FALSE\nkeyUsage=digitalSignature\nextendedKeyUsage=serverAuth\n" > $n.ext
  openssl x509 -req -in $n.csr -CA ca.pem -CAkey ca.key -CAcreateserial -days 3650 -sha256 -extfile $n.ext -out $n.pem 2>/dev/null
  gen self_$n
  openssl req -x509 -new -key self_$n.key -sha256 -days 3650 -subj "/CN=$n.test" -addext "subjectAltName=DNS:$n.test" -out self_$n.pem 2>/dev/null
done
mkdir -p cadir && cp ca.pem cadir/ && (cd cadir && ln -sf ca.pem "$(openssl x509 -hash -noout -in ca.pem).0")
touch done
