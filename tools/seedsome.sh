#!/bin/sh
# usage: tools/seedsome.sh <base dir> "<ids>" "<seed names>"  - like seedall.sh for chosen properties (4 at a time)
cd /verif
BASE=$1; mkdir -p build/seeds
for id in $2; do for k in $3; do echo $BASE/$id/$k; done; done | xargs -P 4 -I{} sh -c '
d={}; id=$(basename $(dirname $d)); k=$(basename $d)
[ -f "$d/patch.diff" ] && [ -f "$d/demo.py" ] || exit 0
tools/seedtest.py $id $d --keep-as ${id}_$k > build/seeds/${id}_$k.json 2>build/seeds/${id}_$k.err'
