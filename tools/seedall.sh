#!/bin/sh
# usage: tools/seedall.sh <base dir> <seed dir name>   e.g.  tools/seedall.sh /tmp/wt2 seed3
# evaluates every <base>/Cxx/<seed> (3 at a time), keeps each under /verif/seeded/Cxx_<seed>/ with meta.json
cd /verif
BASE=${1:-/tmp/wt}; NAME=${2:-seed1}
mkdir -p build/seeds
ls -d $BASE/C*/$NAME 2>/dev/null | xargs -P 3 -I{} sh -c '
d={}; id=$(basename $(dirname $d)); k=$(basename $d)
[ -f "$d/patch.diff" ] && [ -f "$d/demo.py" ] || exit 0
tools/seedtest.py $id $d --keep-as ${id}_$k > build/seeds/${id}_$k.json 2>build/seeds/${id}_$k.err'
/venv/bin/python - "$NAME" <<'PY'
import json,glob,sys
ok=0; n=0
for f in sorted(glob.glob("/verif/build/seeds/*_%s.json" % sys.argv[1])):
    try:
        r=json.load(open(f)); c=r["checks"][r["property"]]; n+=1; ok+=r["caught_by_own_check"]
        print(f.split("/")[-1][:-5], "valid" if r["valid_seed"] else "INVALID(t=%s d0=%s d1=%s)"%(r.get("tests_passed"),r.get("demo_without_patch_rc"),r.get("demo_with_patch_rc")), "CAUGHT" if r["caught_by_own_check"] else "MISSED rc=%s"%c["rc"], "|", c["first"][:110])
    except Exception as e:
        print(f, "ERROR", e)
print("caught %d of %d"%(ok,n))
PY
