#!/bin/sh
# evaluate every seed under /tmp/wt (3 at a time), keep each under /verif/seeded/<id>_<k>/ with meta.json
cd /verif
ls -d /tmp/wt/C*/seed[12] | xargs -P 3 -I{} sh -c '
d={}; id=$(basename $(dirname $d)); k=$(basename $d)
[ -f "$d/patch.diff" ] && [ -f "$d/demo.py" ] || exit 0
tools/seedtest.py $id $d --keep-as ${id}_$k > build/seeds/${id}_$k.json 2>build/seeds/${id}_$k.err'
/venv/bin/python - <<'PY'
import json,glob
ok=0; n=0
for f in sorted(glob.glob("/verif/build/seeds/*.json")):
    try:
        r=json.load(open(f)); c=r["checks"][r["property"]]; n+=1; ok+=r["caught_by_own_check"]
        print(f.split("/")[-1][:-5], "valid" if r["valid_seed"] else "INVALID", "CAUGHT" if r["caught_by_own_check"] else "MISSED rc=%s"%c["rc"], "|", c["first"][:110])
    except Exception as e:
        print(f, "ERROR", e)
print("caught %d of %d"%(ok,n))
PY
