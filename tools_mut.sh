#!/bin/sh
# usage: tools_mut.sh <ID> <python-snippet-to-mutate /tmp/mut tree>   (scratch copy outside /repo and /verif, removed afterwards)
rm -rf /tmp/mut && cp -r /repo /tmp/mut && rm -rf /tmp/mut/.git
( cd /tmp/mut && /venv/bin/python -c "$2" ) || { echo "mutation failed"; rm -rf /tmp/mut; exit 2; }
( cd /tmp/mut && /venv/bin/python -m pytest -q -p no:cacheprovider websocket/tests 2>&1 | tail -1 )
cd /verif && VERIF_REPO=/tmp/mut ./check $1 quick 2>&1 | grep -v "^WARNING conda" | cut -c1-260 | grep -v "^VIOLATION" | head -${3:-4}
rm -rf /tmp/mut
