"""Projection of the app world's log onto the event alphabet of spec/AppMon.tla."""


def project(log, sc, tid):
    ev = [{"ev": "begin"}]
    runkw = sc.get("run", {})
    payload = runkw.get("ping_payload", "")
    payload = list(payload.encode() if isinstance(payload, str) else payload)
    lat_for = {}
    for e in log:
        k = e["ev"]
        t = e["t"]
        if k == "run_begin":
            if sc.get("runs_kw"):
                runkw = sc["runs_kw"][e["run"]]
                payload = runkw.get("ping_payload", "")
                payload = list(payload.encode() if isinstance(payload, str) else payload)
            ev.append({"ev": "run_begin", "t": t, "run": e["run"], "interval": e["interval"], "timeout": e["timeout"],
                       "timeoutGiven": runkw.get("ping_timeout") is not None, "reconnect": e["reconnect"], "cbs": e["cbs"],
                       "dispatcher": e["dispatcher"], "payload": payload, "jitter": int(sc.get("send_delay_ms") or 0),
                       "skipUtf8": bool(runkw.get("skip_utf8_validation"))})
        elif k == "dial":
            ev.append({"ev": "dial", "t": t, "cid": e["cid"], "outcome": e["outcome"]})
        elif k == "srv":
            x = {"ev": "srv", "t": t, "cid": e["cid"], "kind": e["kind"], "data": e.get("data", []), "op": e.get("op", 0),
                 "hasBody": e.get("hasBody", False), "status": e.get("status", 0), "reason": e.get("reason", [])}
            ev.append(x)
        elif k == "cb" and e["name"] == "cont_message":
            pass        # on_cont_message is outside the listed callbacks: recorded, not judged
        elif k == "cb":
            arg = e.get("arg", {"type": "none", "data": []})
            ev.append({"ev": "cb", "t": t, "name": e["name"], "cid": e.get("cid", -1), "arg": arg, "dtype": e.get("dtype", -1),
                       "fin": e.get("fin", True), "cls": e.get("cls", ""), "isexc": e.get("isexc", True),
                       "status": e.get("status", -1), "reason": e.get("reason", {"type": "none", "data": []}),
                       "none": e.get("none", False), "th": e["th"]})
        elif k == "cb_raise":
            ev.append({"ev": "cb_raise", "t": t, "name": e["name"], "kb": bool(e.get("kb"))})
        elif k in ("app_close_call", "user_close_call"):
            ev.append({"ev": "app_close", "t": t, "where": e.get("where", "user")})
        elif k == "ping_sent":
            scr = sc["conns"][e["cid"]] if e["cid"] < len(sc["conns"]) else {}
            lat = scr.get("pong", None)
            n = e["n"]
            if isinstance(lat, dict):
                lat = lat["latency"] if n <= lat["stop_after"] else None
            elif isinstance(lat, list):
                lat = lat[n - 1] if n - 1 < len(lat) else (lat[-1] if lat else None)
            ev.append({"ev": "ping_sent", "t": t, "cid": e["cid"], "data": e["data"], "n": n, "lat": -1 if lat is None else int(lat)})
        elif k == "app_send":
            ev.append({"ev": "app_send", "t": t, "ok": e["ok"], "cls": e["cls"], "delivered": e["delivered"]})
        elif k == "tclose":
            ev.append({"ev": "tclose", "t": t, "cid": e["cid"] if e["cid"] is not None else -1})
        elif k == "run_ret":
            ev.append({"ev": "run_ret", "t": t, "value": e["value"], "run": e["run"], "live": list(e.get("live", []))})
        elif k == "run_raise":
            ev.append({"ev": "run_raise", "t": t, "cls": e["cls"], "run": e["run"]})
        elif k == "quiesce":
            ev.append({"ev": "quiesce", "t": t, "open": e["open"], "live": e["live"], "sock_none": e["sock_none"],
                       "deadlock": e["deadlock"], "overrun": e["overrun"]})
    ev.append({"ev": "end"})
    # an attempt that was answered with a redirect is not a connection of its own: the hop that follows belongs to the
    # same attempt.  Such hops are taken out and the later connections renumbered.
    redirected = sorted({e["cid"] for e in ev if e.get("ev") == "dial" and e.get("outcome") == "redirected"})
    if redirected:
        def renum(c):
            return c - sum(1 for r in redirected if r < c)
        out = []
        for e in ev:
            if "cid" in e and e["cid"] in redirected:
                continue
            if "cid" in e and isinstance(e["cid"], int) and e["cid"] >= 0:
                e = dict(e, cid=renum(e["cid"]))
            out.append(e)
        ev = out
    for i, e in enumerate(ev):
        e["tid"] = tid
        e["i"] = i
    return ev
