"""Regenerates /verif/MANIFEST.json from the table below (python -m vf.manifest)."""
import json
import os

VERIF = os.path.dirname(os.path.dirname(os.path.abspath(__file__)))

CHECKS = {
    "C06": dict(
        engine="Utf8Equiv",
        technique="TLC exhaustive product automaton (live _UTF8D table x Unicode DFA in Codec.tla) + "
                  "replay of TLC witnesses into validate_utf8 + TLC trace validation of real verdicts "
                  "and of recv traces (TraceRecv)",
        text="TLC explores the complete reachable product of the implementation's UTF-8 automaton "
             "(table exported from the live module) with the Unicode definition written in TLA+, which "
             "decides validity for every byte string; every product transition is replayed into the real "
             "validate_utf8, and message-level behaviour (fragments, close reasons, validation off) is "
             "validated as traces of the receive machine; behaviours of RecvSim.tla (ill-formed and well-formed text frames, "
             "validation on and off) enumerated by TLC are replayed into the real object and the predicted history compared.",
        note="Trusts TLC, the table export, and that the pure-Python validator is the one in use "
             "(wsaccel absent).", ref="4 C06"),
}

RECV_NOTE = ("Trusts TLC, the scripted transport and projection (vf/recvworld.py, ~250 lines) and the "
             "independent frame builder vf/wire.py; transport behaviour (cuts, timeouts, EOF, reset) is simulated.")


REPLAYED = ("C02", "C03", "C04", "C05", "C07")
REPLAY_TEXT = (" In the direction specification -> code TLC enumerates the behaviours of RecvSim.tla (the model plus the history of the "
               "environment's choices: calls, pieces handed over, timeouts, end of stream - every behaviour for small constants, "
               "simulated ones for larger), each is replayed into the real WebSocket over a scripted transport and TraceRecv "
               "compares the observable history with the one the model predicted.")


def _recv(pid, text, tech):
    rep = pid in REPLAYED
    CHECKS[pid] = dict(engine="Recv+RecvMC+RecvSim+TraceRecv" if rep else "Recv+RecvMC+TraceRecv",
                       technique=tech + ("; replay of TLC-enumerated model behaviours (RecvSim.tla) into the implementation" if rep else ""),
                       text=text + (REPLAY_TEXT if rep else ""), note=RECV_NOTE, ref="4 " + pid)


_recv("C02", "TLC model-checks the byte-level receive machine (Recv.tla) against a frame-level oracle over all "
      "cuttings of small streams; every first header byte x mask x length class, all three length forms, "
      "non-minimal encodings and back-to-back streams are executed against the real recv_frame/recv_data_frame "
      "and the recorded traces are validated by TLC step by step against the same machine.",
      "TLC exhaustive model checking of Recv.tla + TLC trace validation (TraceRecv) of real executions")
_recv("C03", "TLC explores every cutting of the stream at the granularity of the machine's own read requests and "
      "timeouts at any point and checks that the observations never leave the frame-level oracle; the real "
      "library is run over exhaustive partitions of short streams (and sampled ones of long streams), timeouts at "
      "every byte position and in pairs, head and frames in one flow through the real connect(); all traces are "
      "validated by TLC against one deterministic machine, so all segmentations give identical results.  Also: the "
      "response head itself in pieces of 1-7 bytes, a non-blocking transport (would-block at every position), a prior "
      "connection of the same object that ended inside a frame, and - through WebSocketApp - the same frames in one "
      "segment or apart (nothing waits in a buffer).",
      "TLC exhaustive model checking (SegIndep, NoLoss, Conservation) + TLC trace validation over exhaustive cut sets")
_recv("C04", "Reassembly is stated twice in TLA+ (machine + independent MsgsOf) and model-checked; all compositions of "
      "short messages into 1..4 fragments with control frames in the gaps, per-fragment delivery and validation "
      "on/off are executed through recv/recv_data/recv_data_frame and validated as traces.",
      "TLC exhaustive model checking (ReassemblyExact) + TLC trace validation of enumerated fragmentations")
_recv("C05", "Frame legality is a TLA+ operator (Codec!FrameFaults) plus the machine's sequencing rule, cross-checked in "
      "TLC against an independent first-illegal-frame scan; all 256 first bytes x length classes, close bodies, all "
      "sequencing histories up to a bound and all close status codes are executed and judged by TLC.",
      "TLC exhaustive model checking (RejectIffIllegal) + TLC trace validation + TLC batch over all close codes")
_recv("C07", "The machine makes the pong an obligation that must be discharged before the next transport read (TLC: "
      "PongBeforeRead, PongsMirrorPings); every ping length 0..125 and pings at random positions of streams are "
      "executed and the interleaving of transport reads and writes is validated by TLC; pings after the application's "
      "own send_close() (Conn.tla's world) and the automatic pong racing with ping()/pong() callers of other threads "
      "(Send.tla's monitor over enumerated and random schedules) are covered too.",
      "TLC exhaustive model checking + TLC trace validation of read/write interleavings")

CHECKS["C09"] = dict(
    engine="Http+ConnectM+ConnectMC+TraceConnect",
    technique="TLC exhaustive model checking of the connect machine over response-head classes x redirect limits + "
              "TLC trace validation (TraceConnect) of real connect()/create_connection() runs on a simulated network",
    text="Accepts(head, key, offered) and the redirect rule are TLA+ operators; TLC checks the machine over all chains of "
         "head classes against every limit (ConnectedOnlyIfValid, RedirectNeverSuccess, RedirectsBounded); the class product of "
         "status x Upgrade x Connection x accept kind x subprotocol, redirect chains of length 0..5 against limits 0..4 and heads "
         "cut at every n-th byte are served to the real connect() over fake transports and every run is validated by TLC, "
         "including transport cleanup.",
    note="Trusts TLC, vf/networld.py, and the generator's class labels; SHA-1/base64 of the accept value is computed by the "
         "harness from the key captured on the wire.", ref="4 C09")
CHECKS["C17"] = dict(
    engine="Recv+RecvMC+TraceRecv+ConnectM+TraceConnect",
    technique="TLC model checking of the receive machine over raw byte strings (totality, bounded requests) + TLC trace "
              "validation of real recv*/connect runs on exhaustive short prefixes, grammar-based corruptions and random bytes",
    text="Recv.tla is total over byte streams (TLC: Total, ReqBounded on all strings over a byte alphabet up to a bound); every "
         "exception class, every transport request size and progress are clauses of the trace specs; frame phase and handshake "
         "phase are driven with exhaustive short prefixes, single-field corruptions, truncations, oversized declared lengths and "
         "random bytes, followed by end of stream or silence.",
    note="Trusts TLC and the harness; a spin without any transport call is detected by a 10 s alarm per call; the request cap for "
         "the handshake phase is taken to be 16384 bytes like in the frame phase.", ref="4 C17")

CHECKS["C10"] = dict(
    engine="Http+HttpMC+ReqBatch",
    technique="TLA+ definition of the request (Http!Request) as oracle, meta-checked by TLC over the component product; "
              "TLC batch validation of the bytes the real connect() writes; independent server (websockets) acceptance",
    text="Http!RequestHeaders/RequestLine define the request for every target and option set; TLC checks meta-properties of the "
         "definition (mandatory headers once, port rule, IPv6 brackets, cookie order) over the component product, then judges "
         "every request captured from the real library (all targets, all pairs of option values, random full combinations, three "
         "successive connections for key freshness, key = base64 of the single os.urandom(16) draw observed), with debug tracing "
         "on and off, over transports that accept 1 / 50 bytes per write, and for every opening handshake of a reconnecting "
         "WebSocketApp with a callable header option.",
    note="Trusts TLC, the strict request parser in the harness and the websockets package for the independent-server clause; "
         "header order is not constrained (the property does not).", ref="4 C10")
CHECKS["C18"] = dict(
    engine="Target+TargetMC+TargetBatch",
    technique="TLC enumerates the URL component product and renders URL + expected target (spec -> code scenarios); TLC model "
              "checks the dial loop machine over all outcome lists; TLC batch validation of real parse_url/connect()/dial runs",
    text="Every URL of the component product (scheme x separator x userinfo x host form x port x path x query, 7k cases) is produced "
         "by TLC together with the expected (host, port, resource, TLS) or ValueError and run through parse_url and the real connect() "
         "(resolver arguments, request line, TLS wrap, no network on refusal); the dial loop is a TLA+ step machine checked over all "
         "outcome lists, and all lists of length 1..4 x socket options x timeout are executed on fake sockets and judged by TLC.",
    note="Trusts TLC and vf/networld.py; 'unreachable' is ENETUNREACH (EHOSTUNREACH behaviour is reported as a remark only).",
    ref="4 C18")
CHECKS["C19"] = dict(
    engine="Target+TargetMC+TargetBatch",
    technique="TLA+ exemption over label sequences / octet tuples (cross-checked in TLC against a string-level definition), "
              "decision and tunnel operators; TLC batch validation of real _is_no_proxy_host/get_proxy_info/connect() runs",
    text="Hosts are all label sequences of length 1..3 over {a,b,ab,ba} so look-alike suffixes are exhaustive; every no_proxy "
         "singleton (and pairs) from option and both environment spellings, every IPv4 prefix length 0..32 with addresses around "
         "the block, the product of proxy option x four environment variables x no_proxy sources, and CONNECT tunnels with every "
         "reply class x credentials x origin are executed against the real code and judged by TLC.",
    note="Trusts TLC, the rendering of labels/octets to text, vf/networld.py; TLS through the tunnel is covered by C11.", ref="4 C19")
CHECKS["C20"] = dict(
    engine="Cookie+CookieMC+TraceCookie",
    technique="TLC exhaustive model checking of the jar machine against a history-based definition + TLC trace validation of "
              "real handshake histories",
    text="The jar is a TLA+ machine over label-sequence domains; TLC checks all histories up to the bound (LatestWins vs an independent "
         "fold over the history, NeverOutsideDomain, ExactlyCovered); real connect() histories (responses with Set-Cookie lines in every "
         "case/dot rendering, targets inside, outside and look-alike) are stepped through the same machine by TLC.",
    note="Trusts TLC and vf/networld.py; alphanumeric names/values; ambiguous same-name-in-two-covering-domains histories unjudged.",
    ref="4 C20")

CHECKS["C01"] = dict(
    engine="Codec+CodecMC+SendBatch",
    technique="TLA+ frame definition (Codec.tla) with encoder/decoder cross-checked by TLC; TLC batch validation (SendBatch) of "
              "every frame the real client writes, including the key-source draws and the return value",
    text="Codec!Hdr/ClientFrame and the independently written Codec!Parse are checked against each other by TLC over opcodes x FIN x "
         "length classes x keys; then every length 0..300, the +-3 neighbourhoods of 125/126 and 65535/65536, sampled lengths to 70000 "
         "(thorough: every length 0..70000 and samples to 2 MiB), arbitrary Unicode text, bytes/bytearray, all APIs, the three key-source "
         "kinds and trace logging on/off are executed and each frame is judged by TLC: header, shortest length form, mask bit, key on the "
         "wire = the single 4-byte draw, XOR law, frame length, return value.",
    note="For payloads above 512 bytes TLC checks header, key, length, return value and ~60 sampled positions; the remaining payload "
         "positions are compared by the harness's independent decoder (boolean + digest in the event). Trusts TLC and vf/wire.py.",
    ref="4 C01 / 5")
CHECKS["C12"] = dict(
    engine="Send+SendMC+TraceSend",
    technique="TLC model checking of the send path with its lock (plus no-lock / resend-bug variants that must fail, and liveness) + "
              "systematic schedule enumeration of the real library under a deterministic scheduler, traces validated by TLC (TraceSend)",
    text="Send!SStep is a monitor over what reaches the transport; SendMC drives it with 3 sender threads and every short-write pattern and "
         "checks WireIsWholeFrames, MutualExclusion, Termination, and that the model does see interleaving when the lock is removed; real "
         "threads (2-4 senders, 2-3 receivers via recv() and recv_data(), a ping inside a fragmented message) run under a baton scheduler "
         "whose choice points are enumerated depth-first with a preemption bound (random schedules beyond), with short writes and chunked reads.",
    note="Preemption happens at blocking primitives only (lock acquire, transport send/recv); trusts TLC and vf/schedworld.py.",
    ref="4 C12")

CHECKS["C08"] = dict(
    engine="Conn+ConnMC+TraceConn+Recv",
    technique="TLC model checking of the connection machine (Conn.tla on top of Recv.tla) over all call sequences x server scripts + "
              "TLC trace validation of real call sequences under a virtual clock",
    text="Conn!KStep extends the receive machine with send/ping/send_close/close(status,reason,timeout)/shutdown, transport close/shutdown "
         "and event timestamps; ConnMC explores every call sequence up to the bound against every server script (AtMostOneOwnClose, "
         "ClosedIsClosed, CloseAlwaysReleases); all call sequences of length <=2 (sampled 3..6) over 12 calls x 12 server scripts (data, ping, "
         "close frame(s), EOF, silence, chatty, late answer) are executed on the real object and validated by TLC including close-frame "
         "encoding, range check first, release of the transport and the time bound of close().",
    note="Trusts TLC and vf/networld.py (virtual clock: time advances only when a read waits); server events are whole frames.",
    ref="4 C08")

APP_NOTE = ("Trusts TLC, the deterministic scheduler / virtual time (vf/schedworld.py), the scripted servers and the rel-like "
            "external dispatcher of the harness (vf/appworld.py). Time is virtual: 'prompt' = the same millisecond.")


def _app(pid, text, tech):
    CHECKS[pid] = dict(engine="App+AppMon+TraceApp", technique=tech, text=text, note=APP_NOTE, ref="4 " + pid)


_app("C13", "AppMon.tla states the callback contract over observable events only (what the server sent and when, callbacks with arguments "
     "and time); App.tla models run_forever as Main/Ping/User/Net/Clock processes and TLC checks the monitor on every interleaving; real "
     "run_forever executions (all histories of <=2 (thorough 3) server events, longer sampled ones, bursts in one segment followed by silence, "
     "callback subsets, a raising callback, plain and TLS dispatcher) run under the deterministic scheduler and are validated by TLC: "
     "open first, exactly once, in order, content and type, delivered in the millisecond of arrival.",
     "TLC model checking of the process model App.tla against the monitor AppMon + TLC trace validation (TraceApp) of real run_forever runs")
_app("C14", "The monitor demands on_close exactly once and last with the close frame's arguments, the return value, release of transport and "
     "ping thread at quiescence, a second run judged afresh, termination (TLC: liveness on App.tla; harness: no runnable thread and no deadline). "
     "Endings: close frame with/without body, EOF, reset, protocol and payload error, ping timeout, refused, rejected, close() from every callback, "
     "KeyboardInterrupt in callbacks, user-thread close() at many times, and close() from a second thread preempting the main thread at every "
     "n-th source line of the library (sys.settrace; thorough: every line, ~10 700 schedules).",
     "TLC model checking (safety + liveness) of App.tla/AppMon + TLC trace validation incl. line-level preemption schedules")
_app("C15", "Retry exactly one interval after each observable loss, no on_close in between, at most one live transport, on_reconnect/on_open, no "
     "attempt after a server close frame or the application's close(); sequences of up to 3 (thorough 4) connection outcomes x intervals x "
     "built-in / external dispatcher, user close() at many instants including inside the reconnect wait; same monitor on App.tla in TLC.",
     "TLC model checking of App.tla/AppMon + TLC trace validation of real reconnect histories (built-in loop and external dispatcher)")
_app("C16", "App.tla carries the check() predicate and the ping thread's stamping exactly as written and TLC explores the (interval, timeout) grid x "
     "pong latency patterns x interleavings of ping thread and loop; the same grid is executed on the real code in virtual time (silent from the "
     "k-th ping on, latencies below/at/above the timeout, concurrent traffic, invalid settings) and judged by TLC: periodic pings with the payload, "
     "report no later than 2 timeouts after the first unanswered ping, never for a responsive peer.  The model carries "
     "three repaired defects as switchable variants (stamp overwrite, torn check(), unbounded frame read) that TLC must "
     "find; the real code is additionally preempted by its own ping thread at every source line of check(), and run against "
     "peers that fall silent inside a frame, slow frames of responsive peers and sub-second settings.",
     "TLC model checking over the interval/timeout grid (with the repaired defect re-enabled as a negative control) + TLC trace validation")

CHECKS["C11"] = dict(
    engine="Tls+TlsMC+TlsBatch",
    technique="TLA+ decision table (Tls!Outcome) with meta-properties and the connect sequence machine checked by TLC; TLC batch "
              "validation of real TLS handshakes (Python ssl over a socket pair, offline test PKI), direct and through a CONNECT proxy",
    text="Tls.tla defines which checks apply for every combination of the documented sslopt keys, the CA-bundle variable, scheme and "
         "path; TLC proves DefaultStrict, OnlyDocumentedWeaken, non-interference of options, TunnelChangesNothing, WsNeverWrapped over the "
         "whole table and TlsFirstByte / NoWsBeforeVerify on the sequence machine; the real connect path is then run with the real ssl module "
         "against an in-process TLS server presenting trusted/untrusted x matching/non-matching certificates (quick: pairwise covering array "
         "plus one-factor-at-a-time around the default, ~450 handshakes; thorough: the full product) and every outcome, first byte on the raw "
         "stream, SNI and whether WebSocket data reached the server is judged by TLC.",
    note="Certificate path and host-name validation are OpenSSL's and trusted; the test CA is assumed absent from the system store; "
         "CERT_NONE with check_hostname=True is outside the space.", ref="4 C11")

NOT_YET = {}


def build():
    props = [json.loads(l) for l in open(os.path.join(VERIF, "properties.jsonl"))]
    checks = []
    na = []
    for p in props:
        pid = p["id"]
        c = CHECKS.get(pid)
        if not c:
            na.append({"property_id": pid, "reason": NOT_YET.get(pid, "check not built yet in this round "
                       "(specification module planned, see DESIGN.md section 4); not claimed")})
            continue
        checks.append({
            "property_id": pid,
            "quick_cmd": "./check %s quick" % pid,
            "thorough_cmd": "./check %s thorough" % pid,
            "evidence_file": "evidence/%s.json" % pid,
            "replay_cmd_template": "./check %s --replay {path}" % pid,
            "engine": c["engine"],
            "level_claimed": {"category": c.get("category", "model_checking"), "text": c["text"],
                              "design_ref": "DESIGN.md section " + c["ref"]},
            "level_note": c["note"],
            "technique": c["technique"],
        })
    engines = {}
    for pid, c in CHECKS.items():
        for e in c["engine"].split("+"):
            engines.setdefault(e.strip(), []).append(pid)
    man = {
        "version": 1,
        "setup_cmd": "./setup.sh",
        "hooks": {
            "guard": "WEBSOCKET_CLIENT_VERIF",
            "enable": "no source hooks: the harness replaces time/threading/selectors/socket names inside the "
                      "imported websocket modules from outside; ./check exports WEBSOCKET_CLIENT_VERIF=1 (reserved)",
            "baseline_off_cmd": "cd /repo && env -u WEBSOCKET_CLIENT_VERIF /venv/bin/python -m pytest -ra -q "
                                "-p no:cacheprovider --timeout=900 --continue-on-collection-errors",
            "source_commits": [],
            "add_only": True,
        },
        "engines": [{"name": e, "path": "spec/%s.tla" % e, "serves_properties": sorted(v),
                     "kind_free_text": "TLA+ module checked with TLC; bound to the code by vf/ harness"}
                    for e, v in sorted(engines.items())],
        "checks": checks,
        "not_applicable": na,
        "notes": "Model-based verification with explicit TLA+ specifications (spec/*.tla), TLC, and conformance "
                 "in both directions (TLC-enumerated scenarios/behaviours driven into the real library; traces "
                 "recorded from the real library validated by TLC). See DESIGN.md.",
    }
    with open(os.path.join(VERIF, "MANIFEST.json"), "w") as f:
        json.dump(man, f, indent=1)
    return man


if __name__ == "__main__":
    m = build()
    print("MANIFEST: %d checks, %d not claimed" % (len(m["checks"]), len(m["not_applicable"])))
