"""Regenerates /verif/MANIFEST.json from the table below (python -m vf.manifest)."""
import json
import os

VERIF = os.path.dirname(os.path.dirname(os.path.abspath(__file__)))

CHECKS = {
    "C06": dict(
        engine="Utf8Equiv",
        technique="TLC exhaustive product automaton (live _UTF8D table x Unicode DFA in Codec.tla) + "
                  "replay of TLC witnesses into validate_utf8 + TLC trace validation of real verdicts "
                  "and of recv traces (TraceRecv)",
        text="TLC explores the complete reachable product of the implementation's UTF-8 automaton "
             "(table exported from the live module) with the Unicode definition written in TLA+, which "
             "decides validity for every byte string; every product transition is replayed into the real "
             "validate_utf8, and message-level behaviour (fragments, close reasons, validation off) is "
             "validated as traces of the receive machine.",
        note="Trusts TLC, the table export, and that the pure-Python validator is the one in use "
             "(wsaccel absent).", ref="4 C06"),
}

NOT_YET = {}


def build():
    props = [json.loads(l) for l in open(os.path.join(VERIF, "properties.jsonl"))]
    checks = []
    na = []
    for p in props:
        pid = p["id"]
        c = CHECKS.get(pid)
        if not c:
            na.append({"property_id": pid, "reason": NOT_YET.get(pid, "check not built yet in this round "
                       "(specification module planned, see DESIGN.md section 4); not claimed")})
            continue
        checks.append({
            "property_id": pid,
            "quick_cmd": "./check %s quick" % pid,
            "thorough_cmd": "./check %s thorough" % pid,
            "evidence_file": "evidence/%s.json" % pid,
            "replay_cmd_template": "./check %s --replay {path}" % pid,
            "engine": c["engine"],
            "level_claimed": {"category": c.get("category", "model_checking"), "text": c["text"],
                              "design_ref": "DESIGN.md section " + c["ref"]},
            "level_note": c["note"],
            "technique": c["technique"],
        })
    engines = {}
    for pid, c in CHECKS.items():
        for e in c["engine"].split("+"):
            engines.setdefault(e.strip(), []).append(pid)
    man = {
        "version": 1,
        "setup_cmd": "./setup.sh",
        "hooks": {
            "guard": "WEBSOCKET_CLIENT_VERIF",
            "enable": "no source hooks: the harness replaces time/threading/selectors/socket names inside the "
                      "imported websocket modules from outside; ./check exports WEBSOCKET_CLIENT_VERIF=1 (reserved)",
            "baseline_off_cmd": "cd /repo && env -u WEBSOCKET_CLIENT_VERIF /venv/bin/python -m pytest -ra -q "
                                "-p no:cacheprovider --timeout=900 --continue-on-collection-errors",
            "source_commits": [],
            "add_only": True,
        },
        "engines": [{"name": e, "path": "spec/%s.tla" % e, "serves_properties": sorted(v),
                     "kind_free_text": "TLA+ module checked with TLC; bound to the code by vf/ harness"}
                    for e, v in sorted(engines.items())],
        "checks": checks,
        "not_applicable": na,
        "notes": "Model-based verification with explicit TLA+ specifications (spec/*.tla), TLC, and conformance "
                 "in both directions (TLC-enumerated scenarios/behaviours driven into the real library; traces "
                 "recorded from the real library validated by TLC). See DESIGN.md.",
    }
    with open(os.path.join(VERIF, "MANIFEST.json"), "w") as f:
        json.dump(man, f, indent=1)
    return man


if __name__ == "__main__":
    m = build()
    print("MANIFEST: %d checks, %d not claimed" % (len(m["checks"]), len(m["not_applicable"])))
