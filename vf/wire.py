"""Independent RFC 6455 byte-level helpers for the harness (building what a server sends,
decoding what the client wrote).  Not derived from the library under test."""
import base64
import hashlib
import struct

GUID = b"258EAFA5-E914-47DA-95CA-C5AB0DC85B11"


def sframe(op, payload=b"", fin=1, rsv=0, mask=None, length_form=None, declared=None):
    """A server frame.  mask: None (unmasked) or 4-byte key.  length_form: None (shortest),
    2 or 8 (forced extended form).  declared: override the declared length (bytes follow as given)."""
    n = len(payload) if declared is None else declared
    b1 = (fin << 7) | (rsv << 4) | op
    mbit = 0x80 if mask else 0
    if length_form is None:
        length_form = 0 if n <= 125 else 2 if n <= 65535 else 8
    if length_form == 0:
        h = bytes([b1, mbit | n])
    elif length_form == 2:
        h = bytes([b1, mbit | 126]) + struct.pack("!H", n)
    else:
        h = bytes([b1, mbit | 127]) + struct.pack("!Q", n)
    if mask:
        payload = bytes(b ^ mask[i % 4] for i, b in enumerate(payload))
        h += bytes(mask)
    return h + payload


def decode_client_frames(data):
    """Split bytes written by the client into frames: list of dicts; raises ValueError on junk."""
    out = []
    p = 0
    n = len(data)
    while p < n:
        if n - p < 2:
            raise ValueError("truncated header")
        b1, b2 = data[p], data[p + 1]
        l7 = b2 & 0x7F
        q = p + 2
        form = 0
        if l7 == 126:
            ln = struct.unpack("!H", data[q:q + 2])[0]
            q += 2
            form = 2
        elif l7 == 127:
            ln = struct.unpack("!Q", data[q:q + 8])[0]
            q += 8
            form = 8
        else:
            ln = l7
        masked = b2 >> 7
        key = b""
        if masked:
            key = data[q:q + 4]
            q += 4
        if n - q < ln:
            raise ValueError("truncated payload")
        raw = data[q:q + ln]
        pl = bytes(b ^ key[i % 4] for i, b in enumerate(raw)) if masked else raw
        out.append(dict(fin=b1 >> 7, rsv=(b1 >> 4) & 7, op=b1 & 15, masked=masked, len=ln, form=form,
                        key=key, payload=pl, start=p, end=q + ln))
        p = q + ln
    return out


def accept_for(key: bytes) -> bytes:
    return base64.b64encode(hashlib.sha1(key + GUID).digest())


def response_head(key: bytes, extra=()):
    lines = [b"HTTP/1.1 101 Switching Protocols", b"Upgrade: websocket", b"Connection: Upgrade",
             b"Sec-WebSocket-Accept: " + accept_for(key)] + list(extra)
    return b"\r\n".join(lines) + b"\r\n\r\n"
