"""Sequential world for the receive machine: a scripted transport, the real WebSocket object,
and the projection of what happens onto the event alphabet of spec/Recv.tla.

Scenario (dict):
  tid        id of the trace
  stream     bytes the server sends after the handshake response
  cuts       sorted positions 1..len-1 where a transport read must stop ("every" = after each byte)
  timeouts   list of positions (with repetition) at which a read first raises a timeout
  end        "eof" | "timeout" | "reset": what a read finds once the stream is exhausted
  fireCont, skipUtf8
  calls      list of [api, control] used cyclically
  max_calls  budget
  prior_stream bytes of an earlier connection of the same object (then end of stream); implies via_connect
  bad_connect_after_timeout  after the first receive timeout the object's connect() is called with a URL that is refused
  chunk_type   "bytearray" | "memoryview": what the transport's recv() returns (default bytes)
  head_chunk   with via_connect: the response head is handed over at most this many bytes per read
  via_connect  run the real opening handshake over the same transport (head + frames in one flow)
"""
import errno
import signal
import socket as _socket

from . import wire


class Hang(BaseException):
    pass


class FakeSock:
    def __init__(self, sc, log):
        self.sc = sc
        self.log = log
        self.stream = bytes(sc["stream"])
        self.head = b""
        self.hpos = 0
        self.pos = 0
        cuts = sc.get("cuts", [])
        n = len(self.stream)
        self.cuts = set(range(1, n)) if cuts == "every" else set(cuts)
        self.tmo = {}
        for p in sc.get("timeouts", []):
            self.tmo[p] = self.tmo.get(p, 0) + 1
        self.end = sc.get("end", "eof")
        self.closed = False
        self.shut = False
        self.timeout = 0 if sc.get("nonblocking") else 7
        self.req = bytearray()
        self.handshaking = bool(sc.get("via_connect") or sc.get("prior_stream") is not None)
        self.sent = []
        self.ops = 0
        self.last_exc = None
        self.frame_phase = not self.handshaking
        self.budget = 40 * (n + 200)

    # --- socket API used by the library -------------------------------------------------
    def gettimeout(self):
        return self.timeout

    def settimeout(self, t):
        self.timeout = t

    def setsockopt(self, *a):
        pass

    def fileno(self):
        return 99

    def _tick(self):
        self.ops += 1
        if self.ops > self.budget:
            raise Hang()

    def _raise(self, exc):
        self.last_exc = exc
        raise exc

    def recv(self, n):
        self._tick()
        if self.closed:
            self.log({"ev": "tbad", "what": "recv on closed transport"})
            self._raise(OSError(errno.EBADF, "Bad file descriptor"))
        if self.hpos < len(self.head):       # handshake response head: not part of the frame trace
            k = min(n, len(self.head) - self.hpos)
            if self.sc.get("head_chunk"):
                k = min(k, self.sc["head_chunk"])          # the response head arrives in small pieces
            if n > 1 and k == len(self.head) - self.hpos:
                # an implementation that asks for more than it needs gets frame bytes too
                extra = min(n - k, len(self.stream) - self.pos)
            else:
                extra = 0
            r = self.head[self.hpos:self.hpos + k] + self.stream[self.pos:self.pos + extra]
            self.hpos += k
            self.pos += extra
            return r
        p = self.pos
        if self.tmo.get(p, 0) > 0:
            self.tmo[p] -= 1
            if self.sc.get("nonblocking"):
                self.log({"ev": "tagain", "req": n, "pos": self.pos})
                self._raise(BlockingIOError(errno.EAGAIN, "Resource temporarily unavailable"))
            self.log({"ev": "ttimeout", "req": n, "pos": self.pos})
            self._raise(_socket.timeout("timed out"))
        avail = len(self.stream) - p
        if avail == 0:
            if self.end == "eof":
                self.log({"ev": "teof", "req": n, "pos": self.pos})
                return b""
            if self.end == "reset":
                self.log({"ev": "terr", "req": n, "pos": self.pos})
                self._raise(ConnectionResetError(errno.ECONNRESET, "Connection reset by peer"))
            if self.sc.get("nonblocking"):
                self.log({"ev": "tagain", "req": n, "pos": self.pos})
                self._raise(BlockingIOError(errno.EAGAIN, "Resource temporarily unavailable"))
            self.log({"ev": "ttimeout", "req": n, "pos": self.pos})
            self._raise(_socket.timeout("timed out"))
        k = min(n, avail)
        nxt = [c for c in self.cuts if c > p]
        if nxt:
            k = min(k, min(nxt) - p)
        if n <= 0:
            k = 0
        self.pos += k
        self.log({"ev": "trecv", "req": min(n, 2000000000), "got": k, "pos": p})
        chunk = self.stream[p:p + k]
        ct = self.sc.get("chunk_type")          # a transport may hand out any bytes-like object (recv_into wrappers do)
        if ct == "bytearray":
            return bytearray(chunk)
        if ct == "memoryview":
            return memoryview(bytes(chunk))
        return chunk

    def send(self, data):
        self._tick()
        if self.closed:
            self._raise(OSError(errno.EBADF, "Bad file descriptor"))
        data = bytes(data)
        if self.handshaking:
            self.req += data
            if self.req.endswith(b"\r\n\r\n"):
                self.handshaking = False
                key = [l.split(b":", 1)[1].strip() for l in bytes(self.req).split(b"\r\n")
                       if l.lower().startswith(b"sec-websocket-key:")][0]
                self.head = wire.response_head(key)
            return len(data)
        cap = self.sc.get("write_cap")
        if cap:
            data = data[:cap]
        self.sent.append(data)
        self.log({"ev": "tsend", "bytes": list(data)})
        return len(data)

    def shutdown(self, how=None):
        self.shut = True

    def close(self):
        self.closed = True

    def pending(self):
        return 0


def _data_list(d):
    if isinstance(d, str):
        return list(d.encode("utf-8", "surrogatepass"))
    if d is None:
        return []
    return list(bytes(d))


def run_scenario(sc):
    """Runs one scenario against the real library.  Returns the list of events (dicts)."""
    import websocket
    from websocket._exceptions import WebSocketException, WebSocketConnectionClosedException

    ev = []
    tid = sc["tid"]

    def log(e):
        e["tid"] = tid
        e["i"] = len(ev)
        ev.append(e)

    log({"ev": "begin", "stream": list(sc["stream"]), "fireCont": bool(sc.get("fireCont")),
         "skipUtf8": bool(sc.get("skipUtf8"))})
    fake = FakeSock(sc, log)
    ws = websocket.WebSocket(fire_cont_frame=bool(sc.get("fireCont")),
                             skip_utf8_validation=bool(sc.get("skipUtf8")), enable_multithread=not sc.get("nolock"))
    nullh = None
    if sc.get("trace"):
        import logging
        nullh = logging.NullHandler()
        lvl0 = logging.getLogger("websocket").level
        websocket.enableTrace(True, handler=nullh, level="DEBUG")
    if sc.get("prior_stream") is not None:
        # an earlier conversation of the same object that ended (end of stream) in the middle of a frame or message:
        # nothing of it may show in the conversation that is judged
        fake0 = FakeSock({"stream": bytes(sc["prior_stream"]), "via_connect": True, "end": "eof"}, lambda e: None)
        ws.connect("ws://example.test/earlier", socket=fake0)
        fake0.frame_phase = True
        for _ in range(4):
            try:
                ws.recv_data_frame(True)
            except Exception:      # noqa
                break
        ws.close(timeout=0)
    if sc.get("via_connect") or sc.get("prior_stream") is not None:
        try:
            ws.connect("ws://example.test/chat", socket=fake)
        except Exception as e:      # noqa   the (valid) response head was not accepted
            log({"ev": "connect_failed", "cls": type(e).__name__, "msg": str(e)[:80]})
            log({"ev": "end"})
            return ev
        if not ws.connected:
            raise RuntimeError("connect over prepared transport did not connect")
    else:
        ws.sock = fake
        ws.connected = True
    fake.frame_phase = True
    calls = sc["calls"]
    closed_raises = 0
    state_bc = {"done": False}

    def on_alarm(signum, frame):
        raise Hang()

    old = signal.signal(signal.SIGALRM, on_alarm)
    try:
        for ci in range(sc.get("max_calls", 12)):
            api, control = calls[ci % len(calls)]
            log({"ev": "call", "api": api, "control": bool(control)})
            signal.setitimer(signal.ITIMER_REAL, 10.0)
            try:
                if api == "recv":
                    v = ws.recv()
                    if isinstance(v, str):
                        r = {"kind": "text", "op": 99, "fin": 99, "data": _data_list(v)}
                    else:
                        r = {"kind": "bytes", "op": 99, "fin": 99, "data": _data_list(v)}
                elif api == "recv_data":
                    op, data = ws.recv_data(control)
                    r = {"kind": "tuple", "op": int(op), "fin": 99, "data": _data_list(data)}
                elif api == "recv_data_frame":
                    op, fr = ws.recv_data_frame(control)
                    r = {"kind": "frame", "op": int(op), "fin": int(fr.fin), "data": _data_list(fr.data)}
                else:
                    fr = ws.recv_frame()
                    r = {"kind": "frame", "op": int(fr.opcode), "fin": int(fr.fin), "data": _data_list(fr.data)}
                signal.setitimer(signal.ITIMER_REAL, 0)
                r.update({"ev": "ret", "connected": bool(ws.connected), "sock_none": ws.sock is None})
                log(r)
            except Hang:
                signal.setitimer(signal.ITIMER_REAL, 0)
                log({"ev": "hang"})
                break
            except Exception as e:
                signal.setitimer(signal.ITIMER_REAL, 0)
                log({"ev": "raise", "cls": type(e).__name__, "doc": isinstance(e, WebSocketException),
                     "terr": e is fake.last_exc, "connected": bool(ws.connected),
                     "sock_none": ws.sock is None, "tclosed": fake.closed, "msg": str(e)[:80]})
                if sc.get("bad_connect_after_timeout") and type(e).__name__ == "WebSocketTimeoutException" and not state_bc["done"] \
                        and ws.connected:
                    # a connect() of the same object that fails before any transport is opened (a URL that is refused)
                    # leaves the connection that is still up as it was - including what has been read of a frame
                    state_bc["done"] = True
                    try:
                        ws.connect("http://not-a-websocket.test/")
                    except ValueError:
                        pass
                if isinstance(e, WebSocketConnectionClosedException):
                    closed_raises += 1
                    if closed_raises >= 2:
                        break
                elif e is fake.last_exc and fake.end == "reset" and fake.pos == len(fake.stream):
                    break
                elif fake.end == "timeout" and fake.pos == len(fake.stream) and not any(fake.tmo.values()) \
                        and (type(e).__name__ == "WebSocketTimeoutException" or e is fake.last_exc):
                    break
    finally:
        signal.setitimer(signal.ITIMER_REAL, 0)
        signal.signal(signal.SIGALRM, old)
        if nullh is not None:
            import logging
            websocket.enableTrace(False, handler=nullh)
            lg = logging.getLogger("websocket")
            lg.handlers = [h for h in lg.handlers if h is not nullh]
            lg.setLevel(lvl0)
    if sc.get("from_model"):
        # replayed behaviour of spec/RecvSim.tla: the observable history the model predicted travels with the trace
        log({"ev": "end", "expect": sc["expect"], "whole": bool(sc["whole"])})
    else:
        log({"ev": "end"})
    return ev
