"""Running TLC and reading what it says.  Plumbing only: every judgement is TLC's.

A run is described by (module, cfg text, constants, environment).  Modules live in
/verif/spec; a run gets its own scratch directory under /verif/build/<tag>/ with the
cfg, the metadir and (for trace validation) the trace file next to it.
"""
import json
import os
import re
import shutil
import subprocess
import time

VERIF = os.path.dirname(os.path.dirname(os.path.abspath(__file__)))
SPEC = os.path.join(VERIF, "spec")
BUILD = os.path.join(os.environ["VERIF_SCRATCH"], "build") if os.environ.get("VERIF_SCRATCH") else os.path.join(VERIF, "build")
JAR = "/opt/veriftools/tla/tla2tools.jar"
DEPS = "/opt/veriftools/tla/CommunityModules-deps.jar"


class TlcError(Exception):
    """TLC itself failed (parse error, crash, timeout): machinery failure, exit 2."""


class TlcResult:
    def __init__(self):
        self.out = ""
        self.generated = 0      # states generated (= transitions + initial states)
        self.distinct = 0
        self.depth = 0
        self.violated = []      # names of invariants / properties violated
        self.cex = []           # counterexample: list of (action, text)
        self.printed = []       # raw PrintT lines
        self.coverage = {}      # action name -> (distinct, taken)
        self.wall = 0.0
        self.ok = False         # finished without error of any kind
        self.deadlock = False
        self.tag = ""
        self.dir = ""

    @property
    def transitions(self):
        return max(self.generated, 0)


_NOISE = re.compile(r"^(Linting|Semantic processing|Parsing file|Warning: Please run the Java VM)")


def scratch(tag):
    d = os.path.join(BUILD, tag)
    if os.path.isdir(d):
        shutil.rmtree(d, ignore_errors=True)
    os.makedirs(d, exist_ok=True)
    return d


def run(module, cfg, tag, env=None, workers=16, simulate=None, depth=None, coverage=False,
        timeout=3600, extra=None, seed=None, deadlock=False, heap="8g", dfid=None, keep=False, gen=None):
    """Run TLC on spec/<module>.tla with the given cfg text.  Returns TlcResult.

    simulate: None or a string such as 'num=1000' / 'file=...,num=..'.
    deadlock: True = let TLC report deadlocks (default off: most specs here end).
    """
    d = scratch(tag)
    cfgp = os.path.join(d, module + ".cfg")
    with open(cfgp, "w") as f:
        f.write(cfg)
    root = os.path.join(SPEC, module + ".tla")
    for name, text in (gen or {}).items():
        with open(os.path.join(d, name + ".tla"), "w") as f:
            f.write(text)
        if name == module:
            root = os.path.join(d, name + ".tla")
    jtmp = os.path.join(d, "jtmp")          # TLC leaves an empty tlc-<n> directory per run in java.io.tmpdir: keep it in the scratch
    os.makedirs(jtmp, exist_ok=True)
    cmd = ["java", "-XX:+UseParallelGC", "-Xmx" + heap, "-Xss64m", "-Djava.io.tmpdir=" + jtmp,
           "-DTLA-Library=" + SPEC + os.pathsep + d,
           "-cp", JAR + ":" + DEPS, "tlc2.TLC",
           "-workers", str(workers), "-metadir", os.path.join(d, "meta"),
           "-noGenerateSpecTE", "-config", cfgp]
    if not deadlock:
        cmd += ["-deadlock"]
    if simulate:
        cmd += ["-simulate", simulate]
    if depth:
        cmd += ["-depth", str(depth)]
    if coverage:
        cmd += ["-coverage", "1"]
    if seed is not None:
        cmd += ["-seed", str(seed)]
    if dfid:
        cmd += ["-dfid", str(dfid)]
    if extra:
        cmd += list(extra)
    cmd.append(root)
    e = dict(os.environ)
    if env:
        e.update({k: str(v) for k, v in env.items()})
    t0 = time.time()
    try:
        p = subprocess.run(cmd, cwd=d, env=e, stdout=subprocess.PIPE, stderr=subprocess.STDOUT,
                           timeout=timeout, text=True, errors="replace")
    except subprocess.TimeoutExpired as ex:
        subprocess.run(["pkill", "-f", "metadir " + os.path.join(d, "meta")])
        raise TlcError("TLC timed out after %ss on %s (%s)" % (timeout, module, tag)) from ex
    r = parse(p.stdout)
    r.wall = time.time() - t0
    r.tag = tag
    r.dir = d
    r.rc = p.returncode
    with open(os.path.join(d, "tlc.out"), "w") as f:
        f.write(p.stdout)
    if not keep:
        shutil.rmtree(os.path.join(d, "meta"), ignore_errors=True)
    if r.fatal:
        raise TlcError("TLC failed on %s (%s): %s" % (module, tag, r.fatal))
    return r


def parse(out):
    r = TlcResult()
    r.out = out
    r.fatal = None
    lines = [l for l in out.splitlines() if not _NOISE.match(l)]
    in_cex = False
    cur = None
    for i, l in enumerate(lines):
        m = re.match(r"^(\d+) states generated, (\d+) distinct states found, (\d+) states left", l)
        if m:
            r.generated, r.distinct = int(m.group(1)), int(m.group(2))
        m = re.match(r"^The depth of the complete state graph search is (\d+)", l)
        if m:
            r.depth = int(m.group(1))
        m = re.match(r"^Progress: (\d+) states checked", l)
        if m:  # simulation mode progress
            r.generated = max(r.generated, int(m.group(1)))
        m = re.match(r"^The number of states generated: (\d+)", l)
        if m:
            r.generated = max(r.generated, int(m.group(1)))
        m = re.match(r"^Error: Invariant (\S+) is violated", l)
        if m:
            r.violated.append(m.group(1))
            in_cex = True
        m = re.match(r"^Error: Action property (\S+) is violated", l)
        if m:
            r.violated.append(m.group(1))
            in_cex = True
        if re.match(r"^Error: Temporal properties were violated", l):
            r.violated.append("TEMPORAL")
            in_cex = True
        if re.match(r"^Error: Deadlock reached", l):
            r.deadlock = True
            in_cex = True
        m = re.match(r"^Error: (.*)$", l)
        if m and not re.match(r"^Error: (Invariant|Action property|Temporal properties|Deadlock|The behavior up to|The following behavior)", l):
            # evaluation errors, assumption failures, parse errors ...
            if r.fatal is None:
                r.fatal = "\n".join(lines[i:i + 12])
        m = re.match(r"^State (\d+): <(.*?)>\s*$", l)
        if m and in_cex:
            cur = [m.group(2), []]
            r.cex.append(cur)
            continue
        if in_cex and cur is not None:
            if l.strip() == "" or l.startswith("State ") or re.match(r"^\d+ states generated", l):
                if l.strip() == "":
                    cur = None
            else:
                cur[1].append(l)
        if l.startswith("<<") or l.startswith("[") or l.startswith('"') or l.startswith("{"):
            r.printed.append(l)
        m = re.match(r"^<(\w+) line \d+, col \d+ to line \d+, col \d+ of module (\w+)>: (\d+):(\d+)", l)
        if m:
            nm = m.group(1)
            a, b = int(m.group(3)), int(m.group(4))
            o = r.coverage.get(nm, (0, 0))
            r.coverage[nm] = (o[0] + a, o[1] + b)
    if "Model checking completed. No error has been found." in out or \
       re.search(r"Finished in .*at", out):
        r.ok = not r.violated and not r.deadlock and r.fatal is None
    else:
        if r.fatal is None and not r.violated and not r.deadlock:
            r.fatal = "TLC did not finish:\n" + "\n".join(lines[-15:])
    return r


# --- TLA+ value printing/parsing helpers ------------------------------------------------

def tla(v):
    """Python value -> TLA+ expression text (for cfg constants / generated modules)."""
    if isinstance(v, bool):
        return "TRUE" if v else "FALSE"
    if isinstance(v, int):
        return str(v)
    if isinstance(v, str):
        return '"' + v.replace("\\", "\\\\").replace('"', '\\"') + '"'
    if isinstance(v, (bytes, bytearray)):
        return "<<" + ",".join(str(b) for b in v) + ">>"
    if isinstance(v, (list, tuple)):
        return "<<" + ",".join(tla(x) for x in v) + ">>"
    if isinstance(v, (set, frozenset)):
        return "{" + ",".join(tla(x) for x in sorted(v, key=repr)) + "}"
    if isinstance(v, dict):
        return "[" + ", ".join("%s |-> %s" % (k, tla(x)) for k, x in v.items()) + "]"
    raise TypeError(v)


def parse_value(s):
    """Parse a TLA+ value as printed by TLC (tuples, sets, records, strings, ints, bools)."""
    pos = [0]
    n = len(s)

    def ws():
        while pos[0] < n and s[pos[0]] in " \t\r\n":
            pos[0] += 1

    def val():
        ws()
        c = s[pos[0]]
        if s.startswith("<<", pos[0]):
            pos[0] += 2
            items = []
            ws()
            if s.startswith(">>", pos[0]):
                pos[0] += 2
                return items
            while True:
                items.append(val())
                ws()
                if s.startswith(">>", pos[0]):
                    pos[0] += 2
                    return items
                assert s[pos[0]] == ",", s[pos[0]:pos[0] + 20]
                pos[0] += 1
        if c == "{":
            pos[0] += 1
            items = []
            ws()
            if s[pos[0]] == "}":
                pos[0] += 1
                return items
            while True:
                items.append(val())
                ws()
                if s[pos[0]] == "}":
                    pos[0] += 1
                    return items
                assert s[pos[0]] == ","
                pos[0] += 1
        if c == "[":
            pos[0] += 1
            rec = {}
            while True:
                ws()
                m = re.match(r"(\w+)\s*\|->", s[pos[0]:])
                assert m, s[pos[0]:pos[0] + 30]
                pos[0] += m.end()
                rec[m.group(1)] = val()
                ws()
                if s[pos[0]] == "]":
                    pos[0] += 1
                    return rec
                assert s[pos[0]] == ","
                pos[0] += 1
        if c == '"':
            j = pos[0] + 1
            buf = []
            while s[j] != '"':
                if s[j] == "\\":
                    j += 1
                buf.append(s[j])
                j += 1
            pos[0] = j + 1
            return "".join(buf)
        m = re.match(r"-?\d+", s[pos[0]:])
        if m:
            pos[0] += m.end()
            return int(m.group(0))
        m = re.match(r"TRUE|FALSE", s[pos[0]:])
        if m:
            pos[0] += m.end()
            return m.group(0) == "TRUE"
        m = re.match(r"\w+", s[pos[0]:])
        if m:
            pos[0] += m.end()
            return m.group(0)
        raise ValueError("cannot parse TLA value at %r" % s[pos[0]:pos[0] + 40])

    v = val()
    return v


def printed_values(res, head):
    """All PrintT'ed tuples whose first element is the string `head`.  Handles values
    that TLC wrapped over several lines."""
    out = []
    text = res.out
    key = '<<"%s"' % head
    i = 0
    while True:
        j = text.find("\n" + key, i)
        if j < 0:
            if text.startswith(key) and i == 0:
                j = -1
            else:
                break
        start = j + 1
        # bracket matching
        depth = 0
        k = start
        instr = False
        while k < len(text):
            ch = text[k]
            if instr:
                if ch == "\\":
                    k += 1
                elif ch == '"':
                    instr = False
            elif ch == '"':
                instr = True
            elif text.startswith("<<", k):
                depth += 1
                k += 1
            elif text.startswith(">>", k):
                depth -= 1
                k += 1
                if depth == 0:
                    k += 1
                    break
            k += 1
        out.append(parse_value(text[start:k]))
        i = k
    return out


def write_ndjson(path, events):
    with open(path, "w") as f:
        for e in events:
            f.write(json.dumps(e, separators=(",", ":")))
            f.write("\n")


def emitted(res, tag):
    """Values printed with VfEmit!EmitJson(tag, v): one JSON document per line."""
    out = []
    pre = '"@@' + tag + ' '
    for line in res.out.splitlines():
        if line.startswith(pre):
            s = json.loads(line)
            out.append(json.loads(s[len(tag) + 3:]))
    return out


def witnesses(module, cfg_base, names, tag, gen=None, timeout=600):
    """Vacuity guard: each named invariant is the negation of a situation that must be reachable,
    so TLC has to VIOLATE each of them.  One short run per witness (stops at the first violation).
    Returns the list of witnesses that were NOT reached."""
    import concurrent.futures as cf

    def one(w):
        r = run(module, cfg_base + "INVARIANT %s\n" % w, "%s_%s" % (tag, w), gen=gen, timeout=timeout, workers=4)
        return w, (w in r.violated)
    missing = []
    with cf.ThreadPoolExecutor(len(names)) as ex:
        for w, hit in ex.map(one, names):
            if not hit:
                missing.append(w)
    return missing
