"""WebSocketApp.run_forever in the deterministic concurrent world (vf/schedworld.py): scripted
servers per connection attempt, user callbacks that record (and optionally raise / close), a user
thread, the projection of everything observable onto the event alphabet of spec/AppMon.tla.

Scenario (dict):
  conns      list of per-attempt scripts:
               headers (extra lines of the 101 response, e.g. Set-Cookie), accept (bool), status (101 | other), events: [(delay_ms, item)], pong: latency ms | None |
               list per ping | {"stop_after": k, "latency": ms}, answer_close (bool)
             item: ("text", str) ("binary", bytes) ("frag", op, [parts]) ("ping", b) ("pong", b)
                   ("close", status|None, reason) ("eof",) ("reset",) ("bad",) ("badutf8",) ("burst", [items])
                   ("partial", bytes)   raw bytes that do not complete a frame
                   ("split", item, k, gap_ms)  the item's frame in two pieces, gap_ms apart
  run        kwargs of run_forever: ping_interval, ping_timeout, ping_payload, reconnect, dispatcher ("ext"), skip_utf8
  callbacks  list of names that are set (default all of open message data error close ping pong)
  actions    {callback name: [action per invocation]}  action: "raise" | "close" | "kbint" | None
  user       [(t_ms, "close")]  user thread
  runs       number of consecutive run_forever calls (default 1); runs_kw: keyword arguments per run
  app_kw     further keyword arguments of WebSocketApp (header, cookie, subprotocols); header_callable: True makes the
             header option a function that returns the static lines + "X-Seq: <number of the evaluation>"
  cb_style   "partial" | "object": the callbacks are functools.partial objects / instances with __call__ (no __name__)
  prepared_socket_timeout  the transport is connected by the application and handed over (socket=), with this timeout set on it
  fake_tls   the fake TLS layer is available although the URL is ws:// (a redirect to wss:// can be followed)
  trace      enableTrace(True) with a null handler for the duration of the scenario
  global_reconnect  websocket.setReconnect(x) instead of run_forever(reconnect=x)
  tls        wss:// with the record-buffering fake TLS socket
  horizon    ms: a watchdog user close() at this time ends scenarios that would run forever
"""
import errno
import re
import types

from . import schedworld, wire


def sframe_items(item):
    """-> list of (frame bytes, abstract srv event or None) for one script item"""
    k = item[0]
    item = [x if not isinstance(x, list) or k in ("frag", "burst") else bytes(x) for x in item]
    if k == "frag":
        item[2] = [p if isinstance(p, str) else bytes(p) for p in item[2]]
    if k == "text":
        return [(wire.sframe(1, item[1].encode("utf-8")), {"kind": "msg", "op": 1, "data": list(item[1].encode("utf-8"))})]
    if k == "binary":
        return [(wire.sframe(2, bytes(item[1])), {"kind": "msg", "op": 2, "data": list(item[1])})]
    if k == "frag":
        op, parts = item[1], item[2]
        out = []
        whole = b"".join(p if isinstance(p, bytes) else p.encode() for p in parts)
        for i, p in enumerate(parts):
            pb = p if isinstance(p, bytes) else p.encode()
            last = i == len(parts) - 1
            out.append((wire.sframe(op if i == 0 else 0, pb, fin=1 if last else 0),
                        {"kind": "msg", "op": op, "data": list(whole), "nfrag": len(parts)} if last else None))
        return out
    if k == "part":
        # one fragment of a message, delivered on its own: ("part", opcode or 0, payload, fin).  The message event is
        # reported by the harness when the final part is delivered (payloads of the open message are accumulated by the caller)
        pb = item[2] if isinstance(item[2], bytes) else item[2].encode()
        return [(wire.sframe(item[1], pb, fin=item[3]), {"kind": "part", "op": item[1], "data": list(pb), "fin": item[3]})]
    if k == "ping":
        return [(wire.sframe(9, item[1]), {"kind": "ping", "data": list(item[1])})]
    if k == "pong":
        return [(wire.sframe(10, item[1]), {"kind": "pong", "data": list(item[1])})]
    if k == "close":
        status, reason = item[1], item[2]
        body = b"" if status is None else bytes([status >> 8, status & 255]) + reason
        return [(wire.sframe(8, body), {"kind": "close", "hasBody": status is not None, "status": status or 0,
                                        "reason": list(reason if status is not None else b"")})]
    if k == "bad":
        return [(wire.sframe(3, b"x"), {"kind": "bad"})]
    if k == "rawtext":
        # a text frame with arbitrary bytes: a message if they are well-formed UTF-8, else the end of the conversation
        b = bytes(item[1])
        try:
            b.decode("utf-8")
            return [(wire.sframe(1, b), {"kind": "msg", "op": 1, "data": list(b)})]
        except UnicodeDecodeError:
            return [(wire.sframe(1, b), {"kind": "badutf8", "data": list(b), "op": 1})]
    if k == "badutf8":
        return [(wire.sframe(1, b"\xff\xfe"), {"kind": "badutf8", "data": [255, 254], "op": 1})]
    if k == "partial":
        return [(bytes(item[1]), {"kind": "partial"})]
    raise ValueError(item)


class AppNet:
    def __init__(self, sched, scripts, tls=False):
        self.sched = sched
        self.scripts = scripts
        self.sockets = []
        self.conns = []
        self.inbuf = {}
        self.fake_tls = tls
        self.last_exc = None
        self.pings_seen = {}
        self.parts = {}

    def ev(self, name, **kw):
        self.sched.ev(name, **kw)

    def resolve(self, host, port):
        self.sched.ev("resolve", host=str(host), port=int(port))
        import socket as _s
        return [(_s.AF_INET, _s.SOCK_STREAM, 6, "", ("10.0.0.1", port))]

    def script(self, cid):
        return self.scripts[cid] if cid < len(self.scripts) else {"accept": False}

    def new_conn(self, sock, addr):
        self.conns.append(sock)
        cid = len(self.conns) - 1
        self.inbuf[cid] = bytearray()
        self.pings_seen[cid] = 0
        return cid

    def accepts(self, cid):
        ok = self.script(cid).get("accept", True)
        if not ok:
            self.sched.ev("dial", cid=cid, outcome="refused")
        return ok

    def on_connect(self, sock):
        pass

    def deliver(self, sock, data, abstract):
        if sock.closed:
            return
        if data == "eof":
            sock.eof = True
            self.sched.ev("srv", cid=sock.cid, kind="eof")
        elif data == "reset":
            sock.reset = True
            self.sched.ev("srv", cid=sock.cid, kind="reset")
        else:
            sock.feed(data)
            if abstract is not None and abstract.get("kind") == "part":
                st = self.parts.setdefault(sock.cid, {"op": 0, "data": []})
                if abstract["op"] != 0:
                    st["op"] = abstract["op"]
                    st["data"] = []
                st["data"] += abstract["data"]
                if abstract["fin"]:
                    self.sched.ev("srv", cid=sock.cid, kind="msg", op=st["op"], data=list(st["data"]), nfrag=2)
            elif abstract is not None:
                self.sched.ev("srv", cid=sock.cid, **abstract)

    def deliver_many(self, sock, chunks):
        """several frames written by the server at once: one segment, one TLS record"""
        if sock.closed:
            return
        sock.feed(b"".join(b for b, a in chunks))
        for b, a in chunks:
            if a is not None:
                self.sched.ev("srv", cid=sock.cid, **a)

    def client_wrote(self, sock, d):
        cid = sock.cid
        sc = self.script(cid)
        ib = self.inbuf[cid]
        ib += d
        if not sc.get("_hs"):
            if ib.endswith(b"\r\n\r\n"):
                sc["_hs"] = True
                req = bytes(ib)
                del ib[:]
                self.sched.ev("request", cid=cid, raw=list(req))
                key = re.search(rb"Sec-WebSocket-Key: (\S+)", req).group(1)
                status = sc.get("status", 101)
                if status == 101:
                    self.sched.ev("dial", cid=cid, outcome="established")
                    sock.feed(wire.response_head(key, extra=[h.encode("latin-1") for h in sc.get("headers", [])]))
                    t = self.sched.now
                    for delay, item in sc.get("events", []):
                        t += delay / 1000.0
                        if item[0] == "eof":
                            self.sched.at(t, lambda s=sock: self.deliver(s, "eof", None))
                        elif item[0] == "reset":
                            self.sched.at(t, lambda s=sock: self.deliver(s, "reset", None))
                        elif item[0] == "split":
                            # ("split", item, k, gap_ms): the first k bytes of the item's (single) frame now, the rest gap_ms
                            # later - a frame that arrives slowly; the message counts as sent when it is complete
                            (b, a), = sframe_items(item[1])
                            k, gap = int(item[2]), item[3] / 1000.0
                            self.sched.at(t, lambda s=sock, b=b[:k]: self.deliver(s, b, None))
                            t += gap
                            self.sched.at(t, lambda s=sock, b=b[k:], a=a: self.deliver(s, b, a))
                        elif item[0] == "burst":
                            chunks = []
                            for it in item[1]:
                                chunks += sframe_items(it)
                            # one segment: all bytes at once, abstract events in order
                            self.sched.at(t, lambda s=sock, ch=chunks: self.deliver_many(s, ch))
                        else:
                            for b, a in sframe_items(item):
                                self.sched.at(t, lambda s=sock, b=b, a=a: self.deliver(s, b, a))
                elif sc.get("location"):
                    # a redirect: the client follows it within the same connection attempt
                    self.sched.ev("dial", cid=cid, outcome="redirected")
                    sock.feed(b"HTTP/1.1 %d Moved\r\nLocation: %s\r\n\r\n" % (status, sc["location"].encode()))
                else:
                    self.sched.ev("dial", cid=cid, outcome="rejected")
                    sock.feed(b"HTTP/1.1 %d Nope\r\n\r\n" % status)
            return
        frames = []
        while True:
            f = _first_complete(bytes(ib))
            if not f:
                break
            frames.append(f[0])
            del ib[:f[0]["end"]]
        self._react(sock, sc, frames)

    def _react(self, sock, sc, frames):
        cid = sock.cid
        for f in frames:
            if f["op"] == 9:
                self.pings_seen[cid] += 1
                n = self.pings_seen[cid]
                self.sched.ev("ping_sent", cid=cid, data=list(f["payload"]), n=n)
                lat = sc.get("pong", None)
                if isinstance(lat, dict):
                    lat = lat["latency"] if n <= lat["stop_after"] else None
                elif isinstance(lat, list):
                    lat = lat[n - 1] if n - 1 < len(lat) else lat[-1] if lat else None
                if lat is not None:
                    pl = f["payload"]
                    self.sched.at(self.sched.now + lat / 1000.0,
                                  lambda s=sock, pl=pl: self.deliver(s, wire.sframe(10, pl), {"kind": "pong", "data": list(pl)}))
            elif f["op"] == 8:
                self.sched.ev("client_close", cid=cid, data=list(f["payload"]))
                if sc.get("answer_close", True):
                    self.sched.at(self.sched.now, lambda s=sock, pl=f["payload"]: (self.deliver(s, wire.sframe(8, pl[:2]), None),
                                                                                   self.deliver(s, "eof", None)))
            else:
                self.sched.ev("client_frame", cid=cid, op=f["op"], data=list(f["payload"][:50]))


def _first_complete(b):
    if len(b) < 2:
        return []
    l7 = b[1] & 0x7F
    ext = 2 if l7 == 126 else 8 if l7 == 127 else 0
    if len(b) < 2 + ext:
        return []
    n = l7 if ext == 0 else int.from_bytes(b[2:2 + ext], "big")
    total = 2 + ext + (4 if b[1] & 0x80 else 0) + n
    if len(b) < total:
        return []
    return wire.decode_client_frames(b[:total])


class ExtDispatcher:
    """An rel-like external dispatcher on the virtual clock: read(sock, cb), timeout(sec, cb, *args),
    buffwrite, signal, abort, dispatch()."""

    def __init__(self, sched):
        self.sched = sched
        self.readers = {}
        self.timers = []
        self.aborted = False

    def read(self, sock, callback):
        self.readers[sock] = callback

    def buffwrite(self, sock, data, send_fn, disconnect_handler):
        try:
            while data:
                n = send_fn(sock, data)
                data = data[n:]
        except Exception as e:      # noqa
            disconnect_handler(e)

    def timeout(self, seconds, callback, *args):
        self.timers.append([self.sched.now + seconds, seconds, callback, args])

    def signal(self, sig, handler):
        pass

    def abort(self):
        self.aborted = True

    def dispatch(self, stop=None):
        """like rel.dispatch(): runs until aborted, until nothing is registered any more, or (harness)
        until the application has torn the run down - rel itself would keep idling."""
        s = self.sched
        while not self.aborted:
            if stop is not None and stop():
                return
            if not self.readers and not self.timers:
                return

            for k in [k for k in self.readers if k.closed]:
                self.readers.pop(k, None)
            if not self.readers and not self.timers:
                return

            def ready():
                return any(k.readable() or k.closed for k in self.readers) or any(t[0] <= s.now for t in self.timers)
            nxt = min([t[0] for t in self.timers], default=None)
            if not ready():
                s.block(ready, None if nxt is None else max(nxt - s.now, 0), what="dispatch")
            for t in list(self.timers):
                if t[0] <= s.now and t in self.timers:
                    self.timers.remove(t)
                    if t[2](*t[3]):
                        self.timeout(t[1], t[2], *t[3])
            for k, cb in list(self.readers.items()):
                if k.closed:               # like epoll: a closed descriptor silently leaves the set
                    self.readers.pop(k, None)
                elif k.readable():
                    if not cb():
                        self.readers.pop(k, None)


ALL_CBS = ["open", "message", "data", "error", "close", "ping", "pong"]


def run_app(sc, schedule=None, seed=None, line_preempt=None):
    """Runs the scenario; returns (events, sched)."""
    import websocket
    from websocket._abnf import ABNF
    sched = schedworld.Sched(schedule=schedule, seed=seed, max_steps=sc.get("max_steps", 60000))
    net = AppNet(sched, [dict(c) for c in sc["conns"]], tls=bool(sc.get("tls") or sc.get("fake_tls")))
    net.send_delay = (sc.get("send_delay_ms") or 0) / 1000.0
    undo = schedworld.install(sched, net)
    counts = {}
    cbs = sc.get("callbacks", ALL_CBS)
    actions = sc.get("actions", {})
    holder = {}

    def act(name):
        n = counts.get(name, 0)
        counts[name] = n + 1
        lst = actions.get(name, [])
        a = lst[n] if n < len(lst) else None
        if a == "raise":
            sched.ev("cb_raise", name=name)
            raise RuntimeError("callback %s failed" % name)
        if a == "kbint":
            sched.ev("cb_raise", name=name, kb=True)
            raise KeyboardInterrupt()
        if a == "send":
            app_send("from-%s-%d" % (name, n))
        if isinstance(a, str) and a.startswith("deftimeout:"):
            websocket.setdefaulttimeout(float(a.split(":")[1]))       # the application changes the default timeout while running
        if a == "close":
            sched.ev("app_close_call", where=name)
            holder["app"].close()
            sched.ev("app_close_ret", where=name)

    def app_send(text):
        """WebSocketApp.send from application code (beyond the listed properties: clauses X13.*)"""
        mark = len(sched.log)
        ok, cls = True, ""
        try:
            holder["app"].send(text)
        except BaseException as e:      # noqa
            if isinstance(e, schedworld.Killed):
                raise
            ok, cls = False, type(e).__name__
        got = any(e["ev"] == "client_frame" and bytes(e["data"]) == text.encode()[:50] for e in sched.log[mark:])
        sched.ev("app_send", ok=ok, cls=cls, delivered=got)

    def norm(x):
        if isinstance(x, str):
            return {"type": "str", "data": list(x.encode("utf-8"))}
        if isinstance(x, (bytes, bytearray)):
            return {"type": "bytes", "data": list(x)}
        if x is None:
            return {"type": "none", "data": []}
        return {"type": type(x).__name__, "data": []}

    def cur_cid():
        return len(net.conns) - 1

    def on_open(app):
        sched.ev("cb", name="open", cid=cur_cid())
        act("open")

    def on_reconnect(app):
        sched.ev("cb", name="reconnect", cid=cur_cid())
        act("reconnect")

    def on_message(app, m):
        sched.ev("cb", name="message", cid=cur_cid(), arg=norm(m))
        act("message")

    def on_data(app, d, typ, fin):
        sched.ev("cb", name="data", cid=cur_cid(), arg=norm(d), dtype=int(typ), fin=bool(fin))
        act("data")

    def on_error(app, e):
        sched.ev("cb", name="error", cid=cur_cid(), cls=type(e).__name__, isexc=isinstance(e, BaseException),
                 msg=str(e)[:60] if isinstance(e, BaseException) else "")
        act("error")

    def on_close(app, status, reason):
        sched.ev("cb", name="close", cid=cur_cid(), status=-1 if status is None else int(status),
                 reason=norm(reason), none=status is None and reason is None)
        act("close")

    def on_ping(app, d):
        sched.ev("cb", name="ping", cid=cur_cid(), arg=norm(d))
        act("ping")

    def on_pong(app, d):
        sched.ev("cb", name="pong", cid=cur_cid(), arg=norm(d))
        act("pong")

    def on_cont_message(app, d, fin):
        sched.ev("cb", name="cont_message", cid=cur_cid(), arg=norm(d), fin=bool(fin))

    table = {"cont_message": on_cont_message, "open": on_open, "reconnect": on_reconnect, "message": on_message, "data": on_data, "error": on_error,
             "close": on_close, "ping": on_ping, "pong": on_pong}
    kw = {"on_" + n: table[n] for n in cbs}
    style = sc.get("cb_style")
    if style == "partial":            # callables without __name__ / __qualname__
        import functools
        kw = {k: functools.partial(v) for k, v in kw.items()}
    elif style == "object":
        class _Cb:
            __slots__ = ("f",)

            def __init__(self, f):
                self.f = f

            def __call__(self, *a):
                return self.f(*a)
        kw = {k: _Cb(v) for k, v in kw.items()}
    akw = dict(sc.get("app_kw", {}))
    if akw.pop("header_callable", None):
        # a callable header option: evaluated for every opening handshake (X-Seq counts the evaluations)
        calls = {"n": 0}
        static = list(akw.pop("header", []))

        def header_fn():
            calls["n"] += 1
            sched.ev("header_eval", n=calls["n"])
            return static + ["X-Seq: %d" % calls["n"]]
        akw["header"] = header_fn
    kw.update(akw)
    url = ("wss" if sc.get("tls") else "ws") + "://%s/x" % sc.get("url_host", "app.test")
    runkw = dict(sc.get("run", {}))
    ext = None
    if runkw.pop("dispatcher", None) == "ext":
        ext = ExtDispatcher(sched)
        runkw["dispatcher"] = ext
    import logging as _logging
    lg = _logging.getLogger("websocket")
    lg_state = (lg.level, list(lg.handlers))
    if sc.get("trace"):
        websocket.enableTrace(True, handler=_logging.NullHandler(), level="DEBUG")
    if sc.get("global_reconnect") is not None:
        websocket.setReconnect(sc["global_reconnect"])
    try:
        app = websocket.WebSocketApp(url, **kw)
        holder["app"] = app

        def main():
            if sc.get("prepared_socket_timeout") is not None:
                # the application connects the transport itself (socket= option) and has given it a timeout of its own
                ps = schedworld.SSocket(net)
                ps.connect(("10.0.0.1", 80))
                ps.settimeout(sc["prepared_socket_timeout"])
                app.prepared_socket = ps
            for r in range(sc.get("runs", 1)):
                if sc.get("runs_kw"):            # per-run keyword arguments (the same object run with other settings)
                    runkw.clear()
                    runkw.update(sc["runs_kw"][r])
                    if ext is not None:
                        runkw["dispatcher"] = ext
                sched.ev("run_begin", run=r, interval=int(round(1000 * (runkw.get("ping_interval") or 0))),
                         timeout=int(round(1000 * (runkw.get("ping_timeout") or 0))),
                         reconnect=int(round(1000 * (runkw.get("reconnect") if runkw.get("reconnect") is not None
                                                     else (sc.get("global_reconnect") or 0)))), cbs=list(cbs),
                         dispatcher="ext" if ext else "builtin", tls=bool(sc.get("tls")))
                try:
                    v = app.run_forever(**runkw)
                    if ext is not None:
                        # (rel would idle for ever; the harness leaves its loop when the run has been torn down, or - after the
                        #  application's close() - once nothing but idle timers has been left for a few intervals)
                        grace = 3 * max(float(runkw.get("reconnect") or 0), float(runkw.get("ping_interval") or 0),
                                        float(runkw.get("ping_timeout") or 0), 1.0)
                        seen = {}

                        def finished():
                            if getattr(app, "has_done_teardown", False):
                                return True
                            if not app.keep_running and not [k for k in ext.readers if not k.closed]:
                                seen.setdefault("t", sched.now)
                                return sched.now - seen["t"] > grace
                            return False
                        ext.dispatch(stop=finished)
                        v = app.has_errored
                    # threads the library started that are still there at the moment run_forever hands control back
                    # (with an external dispatcher the loop's lifetime is not run_forever's)
                    alive = [] if ext is not None else [t.name for t in sched.threads if not t.done and t.name.split("#")[0] == "ping"]
                    sched.ev("run_ret", value=bool(v), run=r, live=alive)
                    if sc.get("send_after_run"):
                        app_send("after-run-%d" % r)
                except BaseException as e:      # noqa
                    if isinstance(e, schedworld.Killed):
                        raise
                    sched.ev("run_raise", cls=type(e).__name__, run=r, msg=str(e)[:80])
                if r + 1 < sc.get("runs", 1) and sc.get("rerun_gap"):
                    sched.block(lambda: False, sc["rerun_gap"] / 1000.0, what="gap")

        def user():
            for t_ms, what in sc.get("user", []):
                if sched.now < t_ms / 1000.0:
                    sched.block(lambda: False, t_ms / 1000.0 - sched.now, what="user wait")
                sched.ev("user_close_call")
                try:
                    app.close()
                except BaseException as e:      # noqa
                    if isinstance(e, schedworld.Killed):
                        raise
                    sched.ev("user_close_raise", cls=type(e).__name__)
                sched.ev("user_close_ret")

        lp = sc.get("line_preempt")
        if lp is not None:
            import os as _os
            trig = {"n": 0, "go": False, "fired": False}
            libdir = _os.path.dirname(websocket.__file__)

            def user_lp():
                sched.block(lambda: trig["go"], None, what="wait for preemption point")
                sched.ev("user_close_call")
                try:
                    app.close()
                except BaseException as e:      # noqa
                    if isinstance(e, schedworld.Killed):
                        raise
                    sched.ev("user_close_raise", cls=type(e).__name__)
                sched.ev("user_close_ret")

            def tracer(frame, event, arg):
                if not frame.f_code.co_filename.startswith(libdir):
                    return None
                c = sched.cur()
                if c is None or c.name != "main":
                    return None

                def local(frame, event, arg):
                    if event == "line" and not trig["fired"] and (lp_func is None or frame.f_code.co_name == lp_func) \
                            and (lp_to == "user" or any(t.name == lp_to and t is not sched.cur() for t in sched.runnable())):
                        trig["n"] += 1
                        if trig["n"] == lp:
                            trig["fired"] = True
                            trig["go"] = True
                            sched.ev("preempt", func=frame.f_code.co_name, file=_os.path.basename(frame.f_code.co_filename),
                                     line=frame.f_lineno, to=lp_to)
                            sched.schedule = [lp_to]
                            sched.yield_("preempt")
                    return local
                return local
            sched.tracer = tracer
            # line_preempt_to: the thread that runs at the preemption point ("user": a thread calling close(), default;
            # "ping": the library's own ping thread, if it is runnable at that instant).  lp_func: count only the lines of
            # functions with this name.
            lp_to = sc.get("line_preempt_to", "user")
            lp_func = sc.get("lp_func")

            def watchdog():
                sched.block(lambda: False, sc["horizon"] / 1000.0, what="horizon")
                if app.keep_running:
                    sched.ev("user_close_call", where="horizon")
                    try:
                        app.close()
                    except BaseException as e:      # noqa
                        if isinstance(e, schedworld.Killed):
                            raise
                    sched.ev("user_close_ret")

            def main_lp():
                if lp_to == "user":
                    sched.spawn(user_lp, "user")
                if sc.get("horizon"):
                    sched.spawn(watchdog, "watchdog")
                main()
                if not trig["fired"]:
                    trig["go"] = True        # ran out of lines: let the user thread finish
                sched.ev("lines_total", n=trig["n"])
            sched.run(main_lp, "main", wall=60)
            live = [t.name for t in sched.threads if not t.done]
            sched.ev("quiesce", open=sum(1 for s in net.conns if not s.closed), live=live,
                     sock_none=holder["app"].sock is None, deadlock=sched.deadlock, overrun=sched.overrun)
            return sched.log, sched
        items = list(sc.get("user", []))
        if sc.get("horizon"):
            items.append((sc["horizon"], "close"))
            sc = dict(sc, user=sorted([list(x) for x in items], key=lambda x: x[0]))
        if sc.get("user"):
            # the user thread is created by the main thread before run_forever starts
            def main2():
                sched.spawn(user, "user")
                main()
            sched.run(main2, "main", wall=60)
        else:
            sched.run(main, "main", wall=60)
    finally:
        undo()
        if sc.get("trace"):
            websocket.enableTrace(False, handler=_logging.NullHandler())
            lg.setLevel(lg_state[0])
            lg.handlers = lg_state[1]
        if sc.get("global_reconnect") is not None:
            websocket.setReconnect(0)
        websocket.setdefaulttimeout(None)
    live = [t.name for t in sched.threads if not t.done]
    sched.ev("quiesce", open=sum(1 for s in net.conns if not s.closed), live=live,
             sock_none=holder["app"].sock is None, deadlock=sched.deadlock, overrun=sched.overrun)
    return sched.log, sched
