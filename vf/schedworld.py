"""Deterministic concurrent world: real Python threads, exactly one runnable at a time (baton
passing), switches only at yield points (every blocking primitive; optionally every source line of
websocket/*.py through sys.settrace), virtual time that advances only when every thread is blocked
(discrete-event semantics).  The library is unmodified: the names through which it reaches
time / threading / selectors / socket are replaced from outside for the duration of a run.

Scheduling policy = a list of choices to replay (thread names at the successive choice points)
followed by a default policy (stay on the current thread while it can run, else lowest index).
Every choice point is recorded, so a driver can enumerate schedules systematically (vf/explore.py).
"""
import errno
import heapq
import socket as _socket
import sys
import threading as _th
import types


class Killed(BaseException):
    """raised inside managed threads when the world is torn down"""


class Deadlock(Exception):
    pass


_tls = _th.local()


class MThread:
    def __init__(self, sched, fn, name):
        self.sched = sched
        self.fn = fn
        self.name = name
        self.go = _th.Semaphore(0)
        self.done = False
        self.cond = None
        self.deadline = None
        self.exc = None
        self.timed_out = False
        self.what = None
        self.idx = len(sched.threads)
        self.real = _th.Thread(target=self._run, daemon=True)

    def _run(self):
        self.go.acquire()
        _tls.cur = self
        try:
            if self.sched.killed:
                raise Killed()
            if self.sched.tracer:
                sys.settrace(self.sched.tracer)
            self.fn()
        except Killed:
            pass
        except BaseException as e:      # noqa
            self.exc = e
        finally:
            sys.settrace(None)
        self.done = True
        self.sched.ev("th_exit", exc=type(self.exc).__name__ if self.exc else "")
        self.sched._handoff(None)


class Sched:
    def __init__(self, schedule=None, seed=None, max_steps=200000):
        self.now = 0.0
        self.threads = []
        self.log = []
        self.timers = []
        self.tseq = 0
        self.schedule = list(schedule or [])
        self.choices = []          # (runnable names, chosen name, point kind)
        self.finished = _th.Event()
        self.deadlock = False
        self.killed = False
        self.tracer = None
        self.steps = 0
        self.max_steps = max_steps
        self.overrun = False
        self.rng = None
        if seed is not None:
            import random
            self.rng = random.Random(seed)
        self.seq = 0

    # -- logging (sequence number taken while holding the baton)
    def cur(self):
        return getattr(_tls, "cur", None)

    def ev(self, evname, **kw):
        c = self.cur()
        kw["ev"] = evname
        kw["th"] = c.name if c is not None and c.sched is self else "env"
        kw["t"] = int(round(self.now * 1000))
        kw["seq"] = self.seq
        self.seq += 1
        self.log.append(kw)

    # -- threads
    def spawn(self, fn, name):
        t = MThread(self, fn, name)
        self.threads.append(t)
        t.real.start()
        self.ev("th_start", name=name)
        return t

    def at(self, when, fn):
        self.tseq += 1
        heapq.heappush(self.timers, (when, self.tseq, fn))

    def runnable(self):
        return [t for t in self.threads
                if not t.done and (t.cond is None or t.cond() or (t.deadline is not None and t.deadline <= self.now))]

    def _choose(self, r, me, kind):
        if len(r) == 1:
            return r[0]
        names = [t.name for t in r]
        chosen = None
        if self.schedule:
            want = self.schedule.pop(0)
            for t in r:
                if t.name == want:
                    chosen = t
            if chosen is None:
                self.ev("schedule_diverged", want=want, runnable=names)
                self.schedule = []
        if chosen is None:
            if self.rng is not None:
                chosen = self.rng.choice(r)
            elif me is not None and me in r:
                chosen = me
            else:
                chosen = r[0]
        self.choices.append((names, chosen.name, kind, me.name if me is not None and me in r else None))
        return chosen

    def _pick(self, me, kind):
        while True:
            while self.timers and self.timers[0][0] <= self.now:
                _, _, fn = heapq.heappop(self.timers)
                fn()
            r = self.runnable()
            if r:
                return self._choose(r, me, kind)
            live = [t for t in self.threads if not t.done]
            if not live:
                return None
            cands = [t.deadline for t in live if t.deadline is not None] + ([self.timers[0][0]] if self.timers else [])
            if not cands:
                self.deadlock = True
                self.ev("deadlock", blocked=[(t.name, t.what) for t in live])
                return None
            self.now = max(self.now, min(cands))

    def _handoff(self, me, kind="block"):
        self.steps += 1
        if self.steps > self.max_steps:
            self.overrun = True
            self._finish(me)
            return
        nxt = self._pick(me, kind)
        if nxt is None:
            self._finish(me)
            return
        if nxt is me:
            self._resume(me)
            return
        nxt.go.release()
        if me is not None and not me.done:
            me.go.acquire()
            if self.killed:
                raise Killed()
            self._resume(me)

    def _finish(self, me):
        self.finished.set()
        if me is not None and not me.done:
            me.go.acquire()
            raise Killed()

    def _resume(self, t):
        t.timed_out = not (t.cond is None or t.cond())
        t.cond = None
        t.deadline = None
        t.what = None

    def block(self, cond, timeout=None, what=None):
        me = self.cur()
        me.cond = cond
        me.what = what
        me.deadline = None if timeout is None else self.now + timeout
        self._handoff(me)
        return not me.timed_out

    def yield_(self, kind="yield"):
        me = self.cur()
        if me is None or me.sched is not self:
            return
        me.cond = None
        me.deadline = None
        self._handoff(me, kind)

    def run(self, fn, name="main", wall=60):
        self.spawn(fn, name)
        first = self._pick(None, "start")
        first.go.release()
        ok = self.finished.wait(wall)
        self.killed = True
        for t in self.threads:
            if not t.done:
                t.go.release()
        for t in self.threads:
            t.real.join(1.0)
        if not ok:
            raise Deadlock("wall clock limit: a managed thread is stuck outside the world's primitives")
        return self


# ---------------------------------------------------------------------------------------------
# replacements for time / threading / selectors
# ---------------------------------------------------------------------------------------------
def make_time(sched):
    def sleep(d):
        sched.ev("sleep", d=int(round(d * 1000)))
        sched.block(lambda: False, d, what="sleep")
    return types.SimpleNamespace(time=lambda: sched.now, sleep=sleep, monotonic=lambda: sched.now)


def make_threading(sched, lock_names=None):
    lock_names = lock_names if lock_names is not None else {}

    class Event:
        def __init__(self):
            self.f = False

        def set(self):
            self.f = True
            sched.ev("ev_set")

        def is_set(self):
            return self.f

        def clear(self):
            self.f = False

        def wait(self, timeout=None):
            if not self.f:
                sched.block(lambda: self.f, timeout, what="event")
            return self.f

    class Lock:
        def __init__(self):
            self.h = None
            self.name = "lock%d" % len(lock_names)
            lock_names[id(self)] = self

        def acquire(self, blocking=True, timeout=-1):
            sched.yield_("lock_acquire")
            if self.h is not None:
                if not blocking:
                    return False
                sched.block(lambda: self.h is None, None if timeout in (-1, None) else timeout, what="lock " + self.name)
                if self.h is not None:
                    return False
            self.h = sched.cur()
            sched.ev("lock_acq", lock=self.name)
            return True

        def release(self):
            self.h = None
            sched.ev("lock_rel", lock=self.name)

        def locked(self):
            return self.h is not None

        def __enter__(self):
            self.acquire()
            return self

        def __exit__(self, *a):
            self.release()

    class Thread:
        def __init__(self, target=None, args=(), kwargs=None, name=None, daemon=None, group=None):
            self.target = target
            self.args = args
            self.kw = kwargs or {}
            self.daemon = daemon
            self.m = None
            self.name = name or "ping"

        def start(self):
            base = self.name
            n = sum(1 for t in sched.threads if t.name.split("#")[0] == base)
            nm = base if n == 0 else "%s#%d" % (base, n)
            self.m = sched.spawn(lambda: self.target(*self.args, **self.kw), nm)

        def is_alive(self):
            return self.m is not None and not self.m.done

        def join(self, timeout=None):
            if self.is_alive():
                sched.block(lambda: self.m.done, timeout, what="join")

    ns = types.SimpleNamespace(**{k: getattr(_th, k) for k in dir(_th) if not k.startswith("__")})
    ns.Event = Event
    ns.Lock = Lock
    ns.RLock = Lock
    ns.Thread = Thread
    return ns


def make_selectors(sched):
    import selectors as _sel

    class Sel:
        # keyed by descriptor number like the real selectors: a closed socket has descriptor -1, numbers are reused
        def __init__(self):
            self.socks = []
            self.by_fd = {}

        def register(self, sock, ev, data=None):
            fd = sock.fileno()
            if fd < 0:
                raise ValueError("Invalid file descriptor: %d" % fd)
            if fd in self.by_fd:
                raise KeyError("%r (FD %d) is already registered" % (sock, fd))
            self.by_fd[fd] = sock
            self.socks.append((sock, ev))

        def unregister(self, sock):
            fds = [fd for fd, s in self.by_fd.items() if s is sock]
            if not fds:
                raise KeyError("%r is not registered" % (sock,))
            del self.by_fd[fds[0]]
            self.socks = [(s, e) for s, e in self.socks if s is not sock]

        def select(self, timeout=None):
            def ready():
                # (a socket that has been closed is silently gone from the kernel's poll set: it is never reported)
                return [s for s, e in self.socks if not s.closed and ((e & _sel.EVENT_WRITE) or s.readable())]
            sched.ev("select", timeout=-1 if timeout is None else int(round(timeout * 1000)))
            if not ready():
                sched.block(lambda: bool(ready()), timeout, what="select")
            else:
                sched.yield_("select")
            r = ready()
            sched.ev("select_ret", ready=len(r))
            return [(types.SimpleNamespace(fileobj=s), 1) for s in r]

        def close(self):
            pass

    ns = types.SimpleNamespace(**{k: getattr(_sel, k) for k in dir(_sel) if not k.startswith("__")})
    ns.DefaultSelector = Sel
    return ns


# ---------------------------------------------------------------------------------------------
# sockets
# ---------------------------------------------------------------------------------------------
class SSocket:
    """stream socket living in the scheduled world"""

    def __init__(self, net, family=None, *a):
        self.net = net
        self.sched = net.sched
        self.buf = bytearray()
        self.eof = False
        self.reset = False
        self.closed = False
        self.shut = False
        self.to = None
        self.cid = None
        self.opts = []
        self.read_cap = None       # at most k bytes per recv
        self.write_caps = None     # list of caps per send call (cycled)
        self.wi = 0
        self.tls = False
        self.records = []          # TLS: records that have arrived on the raw stream but are not decrypted yet
        self.id = len(net.sockets)
        used = {s_.fd for s_ in net.sockets if not s_.closed}
        self.fd = min(n for n in range(1000, 1002 + len(net.sockets)) if n not in used)     # lowest free number, like the OS
        net.sockets.append(self)
        self.last_exc = None

    def settimeout(self, t):
        self.to = t
        self.sched.ev("tsettimeout", sid=self.id, value=-1 if t is None else t)

    def gettimeout(self):
        return self.to

    def setsockopt(self, *a):
        self.opts.append(a)

    def fileno(self):
        return -1 if self.closed else self.fd

    def readable(self):
        """what select() on the descriptor reports: for TLS only the raw stream counts, bytes already
        decrypted inside the TLS object are invisible to it (that is what pending() is for)"""
        if self.tls:
            return bool(self.records) or self.eof or self.reset or self.closed
        return bool(self.buf) or self.eof or self.reset or self.closed

    def has_data(self):
        return bool(self.buf) or bool(self.records) or self.eof or self.reset or self.closed

    def pending(self):
        return len(self.buf) if self.tls else 0

    def feed(self, data):
        """bytes arriving from the peer in one segment (= one TLS record when wrapped)"""
        if self.tls:
            self.records.append(bytes(data))
        else:
            self.buf += data

    def _raise(self, e):
        self.last_exc = e
        self.net.last_exc = e
        raise e

    def connect(self, addr):
        self.sched.yield_("connect")
        self.cid = self.net.new_conn(self, addr)
        ok = self.net.accepts(self.cid)
        self.sched.ev("tconnect", cid=self.cid, sid=self.id, host=str(addr[0]), port=int(addr[1]), ok=bool(ok))
        if not ok:
            self.closed_by_refusal = True
            self._raise(ConnectionRefusedError(errno.ECONNREFUSED, "Connection refused"))
        self.net.on_connect(self)

    def recv(self, n):
        self.sched.yield_("recv")
        if self.closed:
            self.sched.ev("tbad", cid=self.cid, what="recv after close")
            self._raise(OSError(errno.EBADF, "Bad file descriptor"))
        if not self.has_data():
            ok = self.sched.block(self.has_data, self.to, what="recv")
            if not ok:
                self.sched.ev("ttimeout", cid=self.cid, req=min(n, 2000000000))
                self._raise(_socket.timeout("timed out"))
        if self.closed:
            self._raise(OSError(errno.EBADF, "Bad file descriptor"))
        if self.tls and not self.buf and self.records:
            self.buf += self.records.pop(0)        # a whole record is decrypted at once
        if self.buf:
            k = n if self.read_cap is None else min(n, self.read_cap)
            r = bytes(self.buf[:k])
            del self.buf[:k]
            self.sched.ev("trecv", cid=self.cid, req=min(n, 2000000000), got=len(r), bytes=list(r) if len(r) <= 64 else [])
            return r
        if self.reset:
            self.sched.ev("terr", cid=self.cid)
            self.reset_seen = True
            self._raise(ConnectionResetError(errno.ECONNRESET, "Connection reset by peer"))
        self.sched.ev("teof", cid=self.cid)
        return b""

    def send(self, d):
        self.sched.yield_("send")
        if self.closed:
            self.sched.ev("tbad", cid=self.cid, what="send after close")
            self._raise(OSError(errno.EBADF, "Bad file descriptor"))
        if self.shut or self.reset:
            self._raise(BrokenPipeError(errno.EPIPE, "Broken pipe"))
        d = bytes(d)
        k = len(d)
        if self.write_caps:
            k = min(k, self.write_caps[self.wi % len(self.write_caps)])
            self.wi += 1
        acc = d[:k]
        self.sched.ev("tsend", cid=self.cid, offered=list(d) if len(d) <= 300 else list(d[:300]), offered_len=len(d), accepted=k)
        self.net.client_wrote(self, acc)
        delay = getattr(self.net, "send_delay", 0)
        if delay:
            # the writing thread is held up (descheduled / slow system call) while the bytes are already on their way
            self.sched.block(lambda: False, delay, what="send returns late")
        return k

    def sendall(self, data):
        """like a real socket: everything, or - on a descriptor that cannot take more at the moment - a prefix and then EAGAIN"""
        d = bytes(data)
        if self.write_caps and self.to is None:
            k = self.send(d[:self.write_caps[self.wi % len(self.write_caps)]])
            if k < len(d):
                raise BlockingIOError(errno.EAGAIN, "Resource temporarily unavailable")
            return None
        while d:
            d = d[self.send(d):]
        return None

    def shutdown(self, how=None):
        if getattr(self, "reset_seen", False):
            # a TCP socket whose connection was reset by the peer (and that has reported it) is not connected any more
            raise OSError(errno.ENOTCONN, "Transport endpoint is not connected")
        self.sched.ev("tshutdown", cid=self.cid)
        self.shut = True
        self.eof = True

    def close(self):
        if not self.closed:
            self.closed = True
            self.sched.ev("tclose", cid=self.cid)


def install(sched, net, modules=None):
    """Replace the OS-facing names inside the websocket modules.  Returns an undo function."""
    import websocket._abnf as F
    import websocket._app as A
    import websocket._core as C
    import websocket._dispatcher as D
    import websocket._http as H
    import websocket._socket as S
    ft = make_time(sched)
    th = make_threading(sched)
    sel = make_selectors(sched)
    sm = types.SimpleNamespace(**{k: getattr(_socket, k) for k in dir(_socket) if not k.startswith("__")})
    sm.socket = lambda *a, **k: SSocket(net, *a)
    sm.getaddrinfo = lambda host, port, *a, **k: net.resolve(host, port)
    patches = [(A, "time", ft), (C, "time", ft), (D, "time", ft),
               (A, "threading", th), (C, "threading", th), (F, "Lock", th.Lock),
               (A, "selectors", sel), (D, "selectors", sel), (S, "selectors", sel),
               (H, "socket", sm)]
    if net.fake_tls:
        from .networld import FakeTLS
        ftls = FakeTLS(net)
        ftls.SSLSocket = SSocket
        patches.append((H, "ssl", ftls))
    # the same objects reached through `from x import y` style imports inside the library's modules
    import selectors as _sel
    import time as _time
    import websocket._handshake as HS
    import websocket._url as U
    import websocket._utils as UT
    real = {id(_time.time): ft.time, id(_time.sleep): ft.sleep, id(_time.monotonic): ft.monotonic,
            id(_th.Thread): th.Thread, id(_th.Event): th.Event, id(_th.Lock): th.Lock, id(_th.RLock): th.RLock,
            id(_sel.DefaultSelector): sel.DefaultSelector}
    for m in (A, C, D, F, H, S, HS, U, UT):
        for n, v in list(vars(m).items()):
            if not n.startswith("__") and id(v) in real and (m, n) not in [(pm, pn) for pm, pn, _ in patches]:
                patches.append((m, n, real[id(v)]))
    saved = [(m, n, getattr(m, n)) for m, n, _ in patches]
    for m, n, v in patches:
        setattr(m, n, v)

    def undo():
        for m, n, v in reversed(saved):
            setattr(m, n, v)
    return undo
