"""Sequential simulated network for everything around connect(): resolver, stream sockets with
scripted connect outcomes and scripted peers, virtual clock.  The library is not modified: the
names it uses to reach the OS (`socket` in websocket._http, `time` in websocket._core) are replaced
from outside for the duration of a `with World(...)` block.

Every observable is appended to world.log (a list of dicts, in order)."""
import errno
import socket as _socket
import types


class VClock:
    def __init__(self):
        self.now = 1000.0

    def time(self):
        return self.now

    def sleep(self, d):
        self.now += d


class Peer:
    """Scripted peer of one transport.  Subclasses override on_bytes(); they push data for the client
    with self.sock.feed(bytes), end the stream with self.sock.feed_eof()."""
    sock = None

    def on_connect(self):
        pass

    def on_bytes(self, data):
        pass


class FakeSocket:
    def __init__(self, world, family=None, type_=None, proto=None):
        self.w = world
        self.family = family
        self.id = len(world.sockets)
        world.sockets.append(self)
        self.timeout = None
        self.opts = []
        self.inbuf = bytearray()
        self.eof = False
        self.reset = False
        self.closed = False
        self.shut = False
        self.connected_to = None
        self.peer = None
        self.written = bytearray()
        self.cuts = None          # None: hand over everything asked for; int k: at most k bytes per read
        self.write_cap = getattr(world, "write_cap", None)   # at most this many bytes are accepted per send
        self.last_exc = None
        self.silence_forever = True
        self.deliveries = []      # (virtual time, bytes|'eof') scheduled by the peer
        self.rpos = 0             # bytes handed to the client so far
        self.w.ev("tsocket", sock=self.id, family=int(family) if family is not None else -1)

    # -- helpers for peers
    def feed(self, data, at=None):
        if at is None or at <= self.w.clock.now:
            self.inbuf += data
        else:
            self.deliveries.append((at, bytes(data)))

    def feed_eof(self, at=None):
        if at is None or at <= self.w.clock.now:
            self.eof = True
        else:
            self.deliveries.append((at, "eof"))

    def _due(self):
        self.deliveries.sort(key=lambda x: x[0])
        while self.deliveries and self.deliveries[0][0] <= self.w.clock.now:
            _, d = self.deliveries.pop(0)
            if d == "eof":
                self.eof = True
            else:
                self.inbuf += d

    def _raise(self, exc):
        self.last_exc = exc
        self.w.last_exc = exc
        raise exc

    # -- socket API
    def settimeout(self, t):
        self.timeout = t
        self.w.ev("tsettimeout", sock=self.id, value=-1 if t is None else t)

    def gettimeout(self):
        return self.timeout

    def setsockopt(self, *a):
        self.opts.append(tuple(a))
        self.w.ev("tsetsockopt", sock=self.id, opt=[int(x) for x in a])

    def fileno(self):
        return 500 + self.id

    def connect(self, address):
        outcome = self.w.connect_outcome(self, address)
        self.w.ev("tconnect", sock=self.id, host=str(address[0]), port=int(address[1]), outcome=outcome)
        if outcome == "ok":
            self.connected_to = address
            self.peer = self.w.make_peer(self, address)
            if self.peer is not None:
                self.peer.sock = self
                self.peer.on_connect()
            return
        code = {"refused": errno.ECONNREFUSED, "unreachable": errno.ENETUNREACH, "hostunreach": errno.EHOSTUNREACH,
                "other": errno.EACCES, "timeout": errno.ETIMEDOUT}[outcome]
        cls = ConnectionRefusedError if outcome == "refused" else OSError
        self._raise(cls(code, "simulated " + outcome))

    def recv(self, n):
        if self.closed:
            self.w.ev("tbad", sock=self.id, what="recv after close")
            self._raise(OSError(errno.EBADF, "Bad file descriptor"))
        self._due()
        if self.shut:
            # after shutdown(SHUT_RDWR) a read returns end of stream at once
            self.w.ev("teof", sock=self.id, req=min(int(n), 2000000000))
            return b""
        if not self.inbuf and not self.eof and not self.reset and self.deliveries:
            # wait (virtually) for the next scheduled delivery, bounded by the socket timeout
            nxt = min(d[0] for d in self.deliveries)
            if self.timeout is not None and nxt - self.w.clock.now > self.timeout:
                self.w.clock.now += self.timeout
                self.w.ev("ttimeout", sock=self.id, req=n)
                self._raise(_socket.timeout("timed out"))
            self.w.clock.now = nxt
            self._due()
        if self.inbuf:
            k = n if self.cuts is None else min(n, self.cuts)
            data = bytes(self.inbuf[:k])
            del self.inbuf[:k]
            self.w.ev("trecv", sock=self.id, req=min(int(n), 2000000000), got=len(data), pos=self.rpos)
            self.rpos += len(data)
            return data
        if self.reset:
            self.w.ev("terr", sock=self.id, req=n)
            self._raise(ConnectionResetError(errno.ECONNRESET, "Connection reset by peer"))
        if self.eof:
            self.w.ev("teof", sock=self.id, req=min(int(n), 2000000000))
            return b""
        # silence
        if self.timeout is None:
            self.w.ev("thang", sock=self.id)
            raise HangForever()
        self.w.clock.now += self.timeout
        self.w.ev("ttimeout", sock=self.id, req=min(int(n), 2000000000))
        self._raise(_socket.timeout("timed out"))

    def send(self, data):
        if self.closed:
            self.w.ev("tbad", sock=self.id, what="send after close")
            self._raise(OSError(errno.EBADF, "Bad file descriptor"))
        if self.shut:
            self._raise(BrokenPipeError(errno.EPIPE, "Broken pipe"))
        self._due()
        if getattr(self.w, "epipe_after_eof", False) and self.eof:
            # the peer has closed its end: this transport refuses further writes (AF_UNIX, or TCP after the RST)
            self.w.ev("tsendfail", sock=self.id, n=len(data))
            self._raise(BrokenPipeError(errno.EPIPE, "Broken pipe"))
        data = bytes(data)
        if self.write_cap:
            data = data[:self.write_cap]
        self.written += data
        self.w.ev("tsend", sock=self.id, bytes=list(data))
        if self.peer is not None:
            self.peer.on_bytes(data)
        return len(data)

    def sendall(self, data):
        self.send(data)

    def shutdown(self, how=None):
        self.shut = True
        self.w.ev("tshutdown", sock=self.id)

    def close(self):
        if not self.closed:
            self.closed = True
            self.w.ev("tclose", sock=self.id)

    def pending(self):
        return 0


class HangForever(BaseException):
    """a blocking read that would never return (no timeout, silent peer)"""


class World:
    def __init__(self, resolver=None, outcomes=None, peer_factory=None, fake_tls=False):
        self.fake_tls = fake_tls
        self.write_cap = None
        self.clock = VClock()
        self.log = []
        self.sockets = []
        self.resolver = resolver or {}
        self.outcomes = outcomes or {}
        self.peer_factory = peer_factory
        self.last_exc = None
        self.tid = None
        self._saved = []

    def ev(self, name, **kw):
        kw["ev"] = name
        kw["t"] = int(round((self.clock.now - 1000.0) * 1000))
        self.log.append(kw)

    # -- environment decisions
    def resolve(self, host, port):
        self.ev("resolve", host=str(host), port=int(port) if port is not None else -1)
        r = self.resolver.get(host, self.resolver.get("*"))
        if r is None:
            raise _socket.gaierror(-2, "Name or service not known")
        out = []
        for a in r:
            fam = _socket.AF_INET6 if ":" in a else _socket.AF_INET
            addr = (a, port, 0, 0) if fam == _socket.AF_INET6 else (a, port)
            out.append((fam, _socket.SOCK_STREAM, 6, "", addr))
        return out

    def connect_outcome(self, sock, address):
        o = self.outcomes.get(address[0], "ok")
        if isinstance(o, list):
            o = o.pop(0) if o else "ok"
        return o

    def make_peer(self, sock, address):
        return self.peer_factory(self, sock, address) if self.peer_factory else None

    # -- installation
    def socket_module(self):
        ns = types.SimpleNamespace(**{k: getattr(_socket, k) for k in dir(_socket) if not k.startswith("__")})
        ns.socket = lambda *a, **k: FakeSocket(self, *a)
        ns.getaddrinfo = lambda host, port, *a, **k: self.resolve(host, port)
        return ns

    def __enter__(self):
        import websocket._core as C
        import websocket._http as H
        patches = [(H, "socket", self.socket_module()),
                   (C, "time", types.SimpleNamespace(time=self.clock.time, sleep=self.clock.sleep))]
        if self.fake_tls:
            patches.append((H, "ssl", FakeTLS(self)))
        for mod, name, val in patches:
            self._saved.append((mod, name, getattr(mod, name)))
            setattr(mod, name, val)
        return self

    def __exit__(self, *a):
        for mod, name, val in reversed(self._saved):
            setattr(mod, name, val)
        self._saved = []
        return False


class FakeTLS:
    """Stand-in for the `ssl` module inside websocket._http for runs where TLS itself is not the
    subject (C18, C13-C16): records that, and how, a transport would have been wrapped."""

    def __init__(self, world):
        import ssl as _ssl
        self.world = world
        for k in dir(_ssl):
            if k.isupper() or k in ("Purpose", "SSLError", "SSLEOFError", "SSLWantReadError", "SSLWantWriteError",
                                    "CertificateError", "TLSVersion", "VerifyMode"):
                setattr(self, k, getattr(_ssl, k))
        outer = self

        class SSLContext:
            def __init__(self, protocol=None):
                self.protocol = protocol
                self.check_hostname = True
                self.verify_mode = _ssl.CERT_REQUIRED
                self.keylog_filename = None

            def load_verify_locations(self, cafile=None, capath=None, cadata=None):
                pass

            def load_default_certs(self, purpose=None):
                pass

            def load_cert_chain(self, *a, **k):
                pass

            def set_ciphers(self, c):
                pass

            def set_ecdh_curve(self, c):
                pass

            def wrap_socket(self, sock, do_handshake_on_connect=True, suppress_ragged_eofs=True, server_hostname=None):
                outer.world.ev("tls_wrap", sock=sock.id, server_hostname=str(server_hostname),
                               verify=int(self.verify_mode), check_hostname=bool(self.check_hostname))
                sock.tls = True
                return sock
        self.SSLContext = SSLContext
        self.SSLSocket = FakeSocket
