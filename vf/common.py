"""Check context: tier/seed/repo, verdict bookkeeping, evidence and replay files."""
import hashlib
import json
import os
import sys
import time

VERIF = os.path.dirname(os.path.dirname(os.path.abspath(__file__)))
REPO = os.environ.get("VERIF_REPO", "/repo")
_SCR = os.environ.get("VERIF_SCRATCH")      # seeded-change runs: keep evidence / replay / build of the real tree untouched
EVID = os.path.join(_SCR, "evidence") if _SCR else os.path.join(VERIF, "evidence")
REPLAY = os.path.join(_SCR, "replay") if _SCR else os.path.join(VERIF, "replay")
FINDINGS = os.path.join(VERIF, "known_findings.json")


def load_findings():
    try:
        with open(FINDINGS) as f:
            return json.load(f)["findings"]
    except FileNotFoundError:
        return []


class Ctx:
    def __init__(self, pid, tier, seed, level="model_checking"):
        self.pid = pid
        self.tier = tier
        self.seed = seed
        self.level = level
        self.t0 = time.time()
        self.states = 0
        self.transitions = 0
        self.traces = 0
        self.evaluations = 0
        self.distinct = set()
        self.samples = []
        self.violations = []       # (what, replay path)
        self.known_hit = {}        # finding id -> count
        self.notes = {}
        self.assumptions = []
        self.trusted = []
        self.tlc_runs = []
        self.exhaustive = False
        self.remarks = []
        self.machinery_error = None
        import glob
        for old in glob.glob(os.path.join(REPLAY, pid + "-*.json")):
            try:
                os.remove(old)
            except OSError:
                pass
        allf = load_findings()
        fs = [f for f in allf if f["property"] == pid]
        self.open_findings = {f["id"]: f for f in fs if f.get("status") == "open"}
        # a clause of another property can count for this check too (cross-owned clauses in this property's scenarios):
        # the listed finding it belongs to is the same defect whichever check meets it
        self.all_open_findings = {f["id"]: f for f in allf if f.get("status") == "open"}
        self.fixed_findings = {f["id"]: f for f in fs if f.get("status") == "fixed"}

    # --- accounting ---------------------------------------------------------------
    def add_tlc(self, res, what):
        self.states += res.distinct
        self.transitions += res.transitions
        self.tlc_runs.append({"what": what, "distinct_states": res.distinct,
                              "states_generated": res.generated, "depth": res.depth,
                              "wall_s": round(res.wall, 2),
                              "coverage": {k: list(v) for k, v in sorted(res.coverage.items())}})

    def case(self, key, nontrivial=True):
        self.evaluations += 1
        if nontrivial:
            self.distinct.add(key if isinstance(key, (str, int, tuple)) else repr(key))

    def sample(self, obj, cap=6):
        if len(self.samples) < cap:
            self.samples.append(obj)

    def remark(self, text):
        if text not in self.remarks:
            self.remarks.append(text)

    # --- verdicts -----------------------------------------------------------------
    def deviation(self, dev_id, what, replay_obj):
        """A trace/case that fails a property clause through the named deviation.
        Listed open finding -> KNOWN-FINDING; anything else -> violation."""
        if dev_id in self.open_findings or (dev_id is not None and dev_id in self.all_open_findings):
            self.known_hit[dev_id] = self.known_hit.get(dev_id, 0) + 1
            return False
        self.violation(what if dev_id is None else "%s [%s]" % (what, dev_id), replay_obj)
        return True

    def violation(self, what, replay_obj):
        if len(self.violations) >= 25:
            self.violations.append((what, self.violations[-1][1]))
            return
        os.makedirs(REPLAY, exist_ok=True)
        blob = json.dumps(replay_obj, sort_keys=True, default=repr)
        h = hashlib.sha1(blob.encode()).hexdigest()[:12]
        path = os.path.join(REPLAY, "%s-%s.json" % (self.pid, h))
        with open(path, "w") as f:
            json.dump({"property": self.pid, "what": what, "case": replay_obj}, f, indent=1, default=repr)
        self.violations.append((what, path))

    # --- end ----------------------------------------------------------------------
    def finish(self):
        wall = time.time() - self.t0
        for fid, n in sorted(self.known_hit.items()):
            f = self.all_open_findings[fid]
            print("KNOWN-FINDING: property=%s %s (%s; %d cases this run)" % (self.pid, f["what"], fid, n))
        seen = set()
        for what, path in self.violations:
            if path in seen:
                continue
            seen.add(path)
            print("VIOLATION property=%s replay=%s" % (self.pid, path))
            print("  " + what)
        cov = {
            "states": int(self.states),
            "transitions": int(self.transitions),
            "traces_validated_against_impl": int(self.traces),
            "samples": self.samples if self.samples else ["(none)"],
            "evaluations": int(self.evaluations),
            "distinct_nontrivial": len(self.distinct),
            "exhaustive": bool(self.exhaustive),
            "tlc_runs": self.tlc_runs,
            "known_findings_hit": self.known_hit,
            "remarks": self.remarks,
            "trusted_base": self.trusted,
        }
        cov.update(self.notes)
        ev = {
            "property_id": self.pid,
            "tier": self.tier,
            "seed": int(self.seed),
            "level": self.level,
            "coverage": cov,
            "assumptions": self.assumptions,
            "wall_s": round(wall, 2),
            "violations": len(seen),
        }
        if self.machinery_error:
            ev["coverage"]["machinery_error"] = self.machinery_error
        os.makedirs(EVID, exist_ok=True)
        with open(os.path.join(EVID, self.pid + ".json"), "w") as f:
            json.dump(ev, f, indent=1, default=repr)
        status = "VIOLATED" if seen else "held"
        print("%s %s tier=%s seed=%d: %s; TLC %d distinct states / %d transitions, "
              "%d implementation traces validated, %d cases, %.1fs"
              % (self.pid, "check", self.tier, self.seed, status, self.states, self.transitions,
                 self.traces, self.evaluations, wall))
        sys.stdout.flush()
        if self.machinery_error:
            print("MACHINERY-ERROR: " + self.machinery_error)
            # violations found by TLC on real executions stand even if a later self-check of the
            # machinery (e.g. a negative control built from the same, now deviating, run) failed
            return 1 if seen else 2
        return 1 if seen else 0
