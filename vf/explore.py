"""Systematic enumeration of schedules of the deterministic scheduler (vf/schedworld.py):
depth-first over the recorded choice points with a preemption bound, seeded random beyond."""


def preemptions(choices):
    return sum(1 for names, chosen, kind, me in choices if me is not None and chosen != me)


def explore(run, bound=2, max_runs=2000, only_kinds=None):
    """run(schedule) -> (result, choices).  Yields (schedule, result, choices) for every schedule
    reachable with at most `bound` preemptions, up to max_runs executions."""
    stack = [[]]
    seen = set()
    n = 0
    while stack and n < max_runs:
        prefix = stack.pop()
        key = tuple(prefix)
        if key in seen:
            continue
        seen.add(key)
        result, choices = run(list(prefix))
        n += 1
        yield prefix, result, choices
        taken = [c[1] for c in choices]
        for i in range(len(prefix), len(choices)):
            names, chosen, kind, me = choices[i]
            if only_kinds and kind not in only_kinds:
                continue
            for alt in names:
                if alt == chosen:
                    continue
                cand = taken[:i] + [alt]
                pre = preemptions(choices[:i]) + (1 if (me is not None and alt != me) else 0)
                if pre <= bound and tuple(cand) not in seen:
                    stack.append(cand)
