"""./check <ID> [quick|thorough] [--replay PATH]   (VERIF_SEED, VERIF_TIER, VERIF_REPO honoured)"""
import importlib
import os
import sys
import traceback

from . import common, tlc


def main(argv):
    if not argv:
        print(__doc__)
        return 2
    pid = argv[0].upper()
    tier = os.environ.get("VERIF_TIER", "quick")
    replay = None
    rest = argv[1:]
    while rest:
        a = rest.pop(0)
        if a in ("quick", "thorough"):
            tier = a
        elif a == "--replay":
            replay = rest.pop(0)
        else:
            print("unknown argument", a)
            return 2
    seed = int(os.environ.get("VERIF_SEED", "0") or 0)
    sys.path.insert(0, common.REPO)
    try:
        mod = importlib.import_module("vf.props." + pid.lower())
    except ModuleNotFoundError:
        print("no check for", pid)
        return 2
    ctx = common.Ctx(pid, tier, seed)
    try:
        if replay:
            return mod.replay(ctx, replay)
        mod.main(ctx)
    except tlc.TlcError as e:
        ctx.machinery_error = str(e)[:2000]
    except Exception:
        ctx.machinery_error = traceback.format_exc()[-3000:]
    return ctx.finish()


if __name__ == "__main__":
    sys.exit(main(sys.argv[1:]))
