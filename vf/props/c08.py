"""C08 - closing handshake and connection state follow one consistent state machine.
spec/Conn.tla (KStep on top of the receive machine), ConnMC, TraceConn: call sequences on a connected
WebSocket over scripted servers (data, ping, close frame(s), end of stream, silence, chatty) under a
virtual clock, validated by TLC."""
import concurrent.futures as cf
import itertools
import json
import os
import random

from .. import tlc, wire
from ..networld import FakeSocket, HangForever, World

T = 1000     # close() timeout used in most scenarios, ms

SERVERS = {
    # name: list of (gap_ms, item) ; item = bytes or "eof"
    "data_ping_close_eof": [(0, wire.sframe(1, b"hi")), (0, wire.sframe(9, b"p")), (0, wire.sframe(8, b"\x03\xe8bye")), (0, "eof")],
    "silence": [],
    "eof": [(0, "eof")],
    "close_then_silence": [(0, wire.sframe(8, b"\x03\xe9"))],
    "two_closes_eof": [(0, wire.sframe(8, b"\x03\xe8")), (0, wire.sframe(8, b"\x03\xe8")), (0, "eof")],
    "data_then_silence": [(0, wire.sframe(2, b"\x01\x02"))],
    "chatty": [(600, wire.sframe(1, b"n%d" % i)) for i in range(12)],
    "chatty_fast": [(150, wire.sframe(1, b"m%d" % i)) for i in range(30)],
    "late_close_answer": [(0, wire.sframe(1, b"x")), (700, wire.sframe(8, b"\x03\xe8"))],
    "ping_flood": [(100, wire.sframe(9, b"k")) for i in range(25)],
    "data_eof": [(0, wire.sframe(1, b"last")), (0, "eof")],
    "close_empty_eof": [(0, wire.sframe(8, b"")), (0, "eof")],
    # a frame header that announces 2^63 bytes, then the end of the stream: whatever the outcome of the read, the connection
    # state machine goes on normally (close() releases, later calls report the closed connection)
    "huge_len_eof": [(0, wire.sframe(1, b"hi")), (0, b"\x82\x7f\x80\x00\x00\x00\x00\x00\x00\x00abc"), (0, "eof")],
    # a frame that arrives one byte at a time, slower than any single read would time out
    "dribble": [(400, bytes([b])) for b in wire.sframe(1, b"0123456789")],
    # the peer closes its end right after its close frame and the transport then refuses writes (EPIPE)
    "close_eof_epipe": [(0, wire.sframe(1, b"hi")), (0, wire.sframe(8, b"\x03\xe9bye")), (0, "eof")],
    "ping_eof_epipe": [(0, wire.sframe(9, b"p")), (0, wire.sframe(1, b"x")), (0, "eof")],
    "pings_data_close": [(50, wire.sframe(9, b"a")), (50, wire.sframe(1, b"t")), (50, wire.sframe(9, b"")), (50, wire.sframe(2, b"\x00", 0)),
                         (50, wire.sframe(9, b"in")), (50, wire.sframe(0, b"\x01", 1)), (50, wire.sframe(8, b"\x03\xe8")), (0, "eof")],
}

CALLS = {
    "send": dict(api="send", op=1, payload=b"hello"),
    "sendb": dict(api="send", op=2, payload=b"\x00\xff"),
    "ping": dict(api="ping", op=9, payload=b"pp"),
    "recv": dict(api="recv_data_frame", control=True),
    "close": dict(api="close", status=1000, reason=b"", timeout=T),
    "close_r": dict(api="close", status=4001, reason=b"going", timeout=T),
    "close_bad": dict(api="close", status=70000, reason=b"", timeout=T),
    "close_neg": dict(api="close", status=-1, reason=b"", timeout=T),
    "close_short": dict(api="close", status=1001, reason=b"", timeout=300),
    "send_close": dict(api="send_close", status=1000, reason=b"done"),
    "send_close_bad": dict(api="send_close", status=65536, reason=b""),
    "shutdown": dict(api="shutdown"),
}
# beyond the listed properties (clauses X08.*): timeouts, abort, iteration
XCALLS = {
    "settimeout5": dict(api="settimeout", value=5000),
    "settimeoutNone": dict(api="settimeout", value=-1),
    "gettimeout": dict(api="gettimeout"),
    "abort": dict(api="abort"),
    "next": dict(api="recv", control=False, via="next"),
    "iter": dict(api="recv", control=False, via="iter"),
}
CALLS_ALL = dict(CALLS, **XCALLS)


def run_seq(sc):
    """sc: tid, server (name), calls (list of names).  Returns events for TraceConn."""
    import websocket
    from websocket._exceptions import WebSocketException
    script = SERVERS[sc["server"]]
    stream = b"".join(x for _, x in script if x != "eof")
    ev = []
    tid = sc["tid"]

    def log(e):
        e["tid"] = tid
        e["i"] = len(ev)
        ev.append(e)

    w = World()
    w.epipe_after_eof = sc["server"].endswith("_epipe")
    log({"ev": "begin", "stream": list(stream), "server": sc["server"], "calls": sc["calls"]})
    with w:
        ws = websocket.WebSocket()
        sock = FakeSocket(w)
        sock.timeout = 2
        ws.sock_opt.timeout = 2
        t = w.clock.now
        for gap, item in script:
            t += gap / 1000.0
            if item == "eof":
                sock.feed_eof(at=t if t > w.clock.now else None)
            else:
                sock.feed(item, at=t if t > w.clock.now else None)
        ws.sock = sock
        ws.connected = True
        w.log.clear()
        mark = 0

        def flush():
            nonlocal mark
            for e in w.log[mark:]:
                if e["ev"] in ("tsend", "tsendfail", "trecv", "ttimeout", "teof", "terr", "tclose", "tshutdown", "tsettimeout", "tbad"):
                    x = {k: v for k, v in e.items() if k not in ("sock",)}
                    if e["ev"] == "tsettimeout":
                        x["value"] = int(e["value"] * 1000) if e["value"] not in (-1, None) else -1
                    log(x)
            mark = len(w.log)

        def now():
            return int(round((w.clock.now - 1000.0) * 1000))

        import signal
        gate = None
        if sc.get("other_reader"):
            # another, unrelated connection of the same process with a thread blocked in recv(): nothing of it may hold this one up
            import threading

            class Blocker:
                def recv(self, n):
                    gate.wait(30)
                    return b""

                def gettimeout(self):
                    return None

                def settimeout(self, t):
                    pass

                def close(self):
                    pass
            gate = threading.Event()
            other = websocket.WebSocket()
            other.sock = Blocker()
            other.connected = True

            def blocked_reader():
                try:
                    other.recv()
                except Exception:      # noqa
                    pass
            threading.Thread(target=blocked_reader, daemon=True).start()
            import time as _rt
            _rt.sleep(0.05)

        class WallHang(BaseException):
            pass

        def on_alarm(signum, frame):
            raise WallHang()
        old_alarm = signal.signal(signal.SIGALRM, on_alarm)
        for name in sc["calls"]:
            c = CALLS_ALL[name]
            signal.setitimer(signal.ITIMER_REAL, 3.0 if gate is not None else 8.0)       # real time: a call that hangs outside the simulated world (a lock never released)
            ce = {"ev": "call", "api": c["api"], "t": now(), "control": bool(c.get("control", False)), "value": c.get("value", 0),
                  "op": c.get("op", 0), "payload": list(c.get("payload", b"")), "status": c.get("status", 0),
                  "reason": list(c.get("reason", b"")), "timeout": c.get("timeout", 0), "name": name}
            log(ce)
            try:
                r = {"kind": "none", "op": 99, "fin": 99, "data": []}
                if c["api"] == "send":
                    ws.send(c["payload"], c["op"])
                elif c["api"] == "ping":
                    ws.ping(c["payload"])
                elif c["api"] == "recv_data_frame":
                    op, fr = ws.recv_data_frame(True)
                    d = fr.data if isinstance(fr.data, (bytes, bytearray)) else str(fr.data).encode()
                    r = {"kind": "frame", "op": int(op), "fin": int(fr.fin), "data": list(d)}
                elif c["api"] == "close":
                    ws.close(status=c["status"], reason=c["reason"], timeout=c["timeout"] / 1000.0)
                elif c["api"] == "send_close":
                    ws.send_close(c["status"], c["reason"])
                elif c["api"] == "shutdown":
                    ws.shutdown()
                elif c["api"] == "settimeout":
                    ws.settimeout(None if c["value"] < 0 else c["value"] / 1000.0)
                elif c["api"] == "gettimeout":
                    v = ws.gettimeout()
                    r["value"] = -1 if v is None else int(round(v * 1000))
                elif c["api"] == "abort":
                    ws.abort()
                elif c["api"] == "recv":
                    v = ws.next() if c["via"] == "next" else next(iter(ws))
                    r = {"kind": "text" if isinstance(v, str) else "bytes", "op": 99, "fin": 99,
                         "data": list(v.encode("utf-8") if isinstance(v, str) else v)}
                flush()
                r.update({"ev": "ret", "t": now(), "connected": bool(ws.connected), "sock_none": ws.sock is None})
                log(r)
            except HangForever:
                flush()
                log({"ev": "blocked"})
                break
            except WallHang:
                flush()
                log({"ev": "hang"})
                break
            except Exception as e:
                flush()
                log({"ev": "raise", "cls": type(e).__name__, "doc": isinstance(e, WebSocketException), "terr": e is w.last_exc,
                     "connected": bool(ws.connected), "sock_none": ws.sock is None, "tclosed": sock.closed, "t": now(),
                     "msg": str(e)[:60]})
            finally:
                signal.setitimer(signal.ITIMER_REAL, 0)
        signal.signal(signal.SIGALRM, old_alarm)
        if gate is not None:
            gate.set()
    log({"ev": "end"})
    return ev


def scenarios(rng, tier):
    names = list(CALLS)
    out = []
    n = 0
    servers = list(SERVERS)
    maxlen = 3 if tier == "quick" else 4
    seqs = []
    for k in range(1, maxlen + 1):
        seqs += list(itertools.product(names, repeat=k))
    if tier == "quick":
        seqs = [s for s in seqs if len(s) <= 2] + rng.sample([s for s in seqs if len(s) == 3], 500)
    else:
        seqs = [s for s in seqs if len(s) <= 3] + rng.sample([s for s in seqs if len(s) == 4], 6000)
    for s in seqs:
        for sv in (servers if len(s) <= 2 else rng.sample(servers, 3 if tier == "quick" else 4)):
            n += 1
            out.append({"tid": "q%d" % n, "server": sv, "calls": list(s)})
    for _ in range(300 if tier == "quick" else 5000):
        n += 1
        out.append({"tid": "q%d" % n, "server": rng.choice(servers), "calls": [rng.choice(names) for _ in range(rng.randrange(4, 7))]})
    for sv, calls in (("data_ping_close_eof", ["recv", "recv", "close"]), ("silence", ["send", "close_short"]), ("chatty_fast", ["recv", "close"])):
        n += 1
        out.append({"tid": "q%d" % n, "server": sv, "calls": calls, "other_reader": True})
    for tail in (["close", "recv"], ["shutdown", "recv", "send"], ["recv", "recv"], ["send_close", "recv", "close", "recv"]):
        n += 1
        out.append({"tid": "q%d" % n, "server": "huge_len_eof", "calls": ["recv", "recv"] + tail})
    # extended API mixed into call sequences
    allnames = names + list(XCALLS)
    for _ in range(400 if tier == "quick" else 6000):
        n += 1
        k = rng.randrange(2, 6)
        calls = [rng.choice(allnames) for _ in range(k)]
        if not any(c in XCALLS for c in calls):
            calls[rng.randrange(k)] = rng.choice(list(XCALLS))
        out.append({"tid": "x%d" % n, "server": rng.choice(servers), "calls": calls})
    return out


def _chunk(scs):
    out = []
    for sc in scs:
        try:
            out.append(run_seq(sc))
        except Exception as e:
            out.append([{"ev": "begin", "tid": sc["tid"], "i": 0, "stream": []},
                        {"ev": "harness_error", "tid": sc["tid"], "i": 1, "what": repr(e)[:200]}, {"ev": "end", "tid": sc["tid"], "i": 2}])
    return out


def _shard(args):
    k, path, tag = args
    return k, tlc.run("TraceConn", "SPECIFICATION TSpec\nINVARIANT AtMostOneOwnClose\nINVARIANT ClosedIsReleased\nINVARIANT Report\n",
                      tag, env={"TRACE_FILE": path}, workers=1, timeout=3000, heap="3g")


def validate(ctx, scs, tag):
    procs = 12
    with cf.ProcessPoolExecutor(procs) as ex:
        parts = list(ex.map(_chunk, [scs[i::procs] for i in range(procs)]))
    traces = {t[0]["tid"]: t for p in parts for t in p}
    order = [traces[sc["tid"]] for sc in scs]
    shards = max(1, min(10, len(order) // 150))
    d = tlc.scratch("c08_%s_in" % tag)
    jobs = []
    for k in range(shards):
        path = os.path.join(d, "t%d.ndjson" % k)
        with open(path, "w") as f:
            for t in order[k::shards]:
                for e in t:
                    f.write(json.dumps(e, separators=(",", ":")) + "\n")
        jobs.append((k, path, "c08_%s_v%d" % (tag, k)))
    bad = []
    acc = 0
    with cf.ThreadPoolExecutor(shards) as ex:
        for k, r in ex.map(_shard, jobs):
            ctx.add_tlc(r, "TraceConn shard %d (%s)" % (k, tag))
            if r.violated:
                ctx.machinery_error = "TraceConn invariant violated: %s" % r.violated
            v = tlc.emitted(r, "VERDICT")[0]
            bad += v["bad"]
            acc += v["accepted"]
    ctx.traces += len(order)
    ctx.notes.setdefault("families", {})[tag] = {"traces": len(order), "accepted": acc, "rejected": len(bad)}
    return [(next(sc for sc in scs if sc["tid"] == b["tid"]), b, traces[b["tid"]]) for b in bad]


def finding_for(ctx, clause, sc, trace, at):
    for fid, f in ctx.open_findings.items():
        if f.get("clause") != clause:
            continue
        pat = f.get("pattern") or {}
        if "server" in pat and sc["server"] not in pat["server"]:
            continue
        return fid
    return None


def main(ctx):
    rng = random.Random(ctx.seed * 401 + 8)
    from . import c08_mc
    c08_mc.model_check(ctx)
    scs = scenarios(rng, ctx.tier)
    rejected = validate(ctx, scs, "call_sequences")
    for sc, b, trace in rejected:
        why = b["why"]
        owner = why.split(".")[0]
        if owner == "harness":
            ctx.machinery_error = "harness inconsistency %s in %s: %s" % (why, sc, trace[max(0, b["at"] - 3):b["at"] + 1])
        elif owner == "X08":
            ctx.remark("DRIFT (extended coverage, not a listed property): %s in calls %s against '%s'" % (why, sc["calls"], sc["server"]))
        elif owner == "C08" or why in ("C17.undocumented_exception", "C03.spurious_exception"):
            # (an exception outside the documented ones, or one nothing called for, inside a call sequence breaks the state machine too)
            ctx.deviation(finding_for(ctx, why, sc, trace, b["at"]),
                          "calls %s against server '%s': event %d breaks %s; %s" % (
                              sc["calls"], sc["server"], b["at"], why,
                              [{k: v for k, v in e.items() if k in ("ev", "api", "name", "t", "cls", "bytes", "connected", "sock_none")}
                               for e in trace[max(0, b["at"] - 4):b["at"] + 1]]),
                          {"scenario": sc, "clause": why, "at": b["at"], "trace": trace})
        else:
            ctx.remark("clause %s failed in a C08 scenario; judged by ./check %s" % (why, owner))
    for sc in scs:
        ctx.case((sc["server"], tuple(sc["calls"])))
    ctx.sample({"scenario": scs[50], "trace": run_seq(scs[50])[:14]})
    # negative controls
    base = run_seq({"tid": "n", "server": "data_ping_close_eof", "calls": ["send", "close"]})
    import copy

    def clone(tid):
        t = copy.deepcopy(base)
        for e in t:
            e["tid"] = tid
        return t
    vs = []
    t = clone("neg_late")
    [e for e in t if e["ev"] == "ret"][-1]["t"] += 5000
    vs.append(t)
    t = clone("neg_noclose")
    t[:] = [e for e in t if e["ev"] != "tclose"]
    vs.append(t)
    t = clone("neg_body")
    cf_ = [e for e in t if e["ev"] == "tsend"][-1]
    cf_["bytes"][-1] ^= 1
    vs.append(t)
    vs.append(clone("pos"))
    d = tlc.scratch("c08_neg_in")
    path = os.path.join(d, "neg.ndjson")
    with open(path, "w") as f:
        for t in vs:
            for i, e in enumerate(t):
                e["i"] = i
                f.write(json.dumps(e) + "\n")
    _, r = _shard((0, path, "c08_neg"))
    v = tlc.emitted(r, "VERDICT")[0]
    rej = {b["tid"]: b["why"] for b in v["bad"]}
    ctx.notes["negative_controls"] = {"rejected": rej, "accepted": v["accepted"]}
    if set(rej) != {"neg_late", "neg_noclose", "neg_body"} or v["accepted"] != 1:
        ctx.machinery_error = "C08 negative controls: %s accepted=%d" % (rej, v["accepted"])
    ctx.trusted += ["TLC 1.8", "vf/networld.py (virtual clock, scheduled deliveries)"]
    ctx.assumptions += ["server events are whole frames; 'lost' = end of stream seen by a read"]


def replay(ctx, path):
    c = json.load(open(path))["case"]
    for e in run_seq(c["scenario"]):
        print(e)
    return 0
