"""TLC runs of the process model App.tla (with the monitor AppMon inside) for C13-C16."""
import itertools

from .. import tlc


def conn(accept=True, ev=(), lat=-1, stop=0):
    return {"accept": accept, "ev": [list(x) for x in ev], "lat": lat, "stopAfter": stop}


def scen(I=0, T=0, R=0, conns=(), userAt=-1, horizon=60):
    return {"I": I, "T": T, "R": R, "conns": list(conns), "userAt": userAt, "horizon": horizon}


def scenarios(pid, tier):
    out = []
    if pid == "C13":
        kinds = ["text", "ping", "pong"]
        for k in range(0, 4 if tier == "quick" else 5):
            for h in itertools.product(kinds, repeat=k):
                for gaps in ((0,) * k, tuple(range(1, k + 1)), (2,) * k):
                    ev = [(sum(gaps[:i + 1]) if gaps != (0,) * k else 0, h[i]) for i in range(k)]
                    end = (ev[-1][0] if ev else 0) + 1
                    out.append(scen(conns=[conn(ev=ev + [(end, "close")])], horizon=end + 30))
    elif pid == "C14":
        for end in ("close", "eof"):
            for pre in ((), ((1, "text"),), ((1, "ping"), (1, "text"))):
                for user in (-1, 0, 1, 2, 3):
                    out.append(scen(conns=[conn(ev=list(pre) + [(2, end)])], userAt=user, horizon=40))
        out.append(scen(conns=[conn(accept=False)], horizon=20))
        for user in (0, 1, 5, 12):
            out.append(scen(conns=[conn(ev=[(1, "text")])], userAt=user, horizon=40))
        for (I, T) in ((3, 2), (5, 2)):
            out.append(scen(I=I, T=T, conns=[conn(ev=[(1, "text")], lat=-1)], horizon=60))
            out.append(scen(I=I, T=T, conns=[conn(ev=[(1, "text")], lat=1, stop=1)], userAt=40, horizon=60))
    elif pid == "C15":
        outcomes = {"refused": conn(accept=False), "eof": conn(ev=[(1, "text"), (2, "eof")]), "srvclose": conn(ev=[(1, "text"), (2, "close")]),
                    "up": conn(ev=[(1, "text"), (3, "text")])}
        names = ["refused", "eof", "srvclose", "up"]
        for k in range(1, 3 if tier == "quick" else 4):
            for s in itertools.product(names, repeat=k):
                if "srvclose" in s[:-1] or "up" in s[:-1]:
                    continue
                for R in (1, 3):
                    for user in ((-1,) if s[-1] == "srvclose" else (2, 4, 5, 7, 11)):
                        out.append(scen(R=R, conns=[dict(outcomes[x]) for x in s] + [conn(ev=[(1, "text"), (2, "close")])],
                                        userAt=user, horizon=60))
        out.append(scen(I=5, T=2, R=1, conns=[conn(ev=[(1, "text")], lat=-1), conn(ev=[(1, "close")])], horizon=60))
    elif pid == "C16":
        grid = [(i, t) for t in (1, 2, 3) for i in range(1, 8)] if tier == "quick" else [(i, t) for t in (1, 2, 3, 4) for i in range(1, 10)]
        for I, T in grid:
            if I <= T:
                out.append(scen(I=I, T=T, conns=[conn(ev=[(1, "close")])], horizon=10))
                continue
            H = 6 * I + 2 * T
            for lat, stop in ((-1, 0), (0, 0), (T, 0), (T + 1, 0), (0, 1), (1 if T > 1 else 0, 2)):
                for traffic in ((), ((1, "text"), (I, "text"), (I + T, "ping"))):
                    out.append(scen(I=I, T=T, conns=[conn(ev=list(traffic), lat=lat, stop=stop)], userAt=H, horizon=H + 5))
        # a peer that falls silent inside a frame, before or after having answered a ping
        for I, T in ((3, 1), (5, 2)):
            out.append(scen(I=I, T=T, conns=[conn(ev=[(I + 1, "partial")], lat=-1)], userAt=6 * I, horizon=6 * I + 5))
            out.append(scen(I=I, T=T, conns=[conn(ev=[(2 * I + 1, "partial")], lat=0, stop=1)], userAt=7 * I, horizon=7 * I + 5))
        out.append(scen(I=2, T=0, conns=[conn(ev=[(9, "close")], lat=0)], horizon=30))
        out.append(scen(I=0, T=-1, conns=[conn(ev=[(1, "close")])], horizon=10))
    return out


def module(name, scs):
    return {name: "---- MODULE %s ----\nEXTENDS App\nScenariosV == {\n %s }\n====\n" % (name, ",\n ".join(tlc.tla(s) for s in scs))}


def cfg(stamp="FALSE", cae="FALSE", torn="FALSE", blocking="FALSE", invs=("MonitorOk", "CloseOnce", "SingleTransport", "TimeBounded", "NoStuck"), props=("Termination",)):
    return ("SPECIFICATION Spec\nCONSTANTS\n Scenarios <- ScenariosV\n StampAlways = %s\n CloseAsError = %s\n CheckTorn = %s\n BlockingRead = %s\n" % (stamp, cae, torn, blocking)
            + "".join("INVARIANT %s\n" % i for i in invs) + "".join("PROPERTY %s\n" % p for p in props))


KIND = {"partial": ["partial", [129]], "text": ["text", "t"], "ping": ["ping", []], "pong": ["pong", []], "close": ["close", 1000, [98]], "eof": ["eof"]}


def to_world(sc):
    """App.tla scenario (ticks) -> appworld scenario (1 tick = 1 s)"""
    conns = []
    for c in sc["conns"]:
        if not c["accept"]:
            conns.append({"accept": False})
            continue
        evs = sorted({(int(o), k) for o, k in c["ev"]}, key=lambda x: x[0])     # the model's netSched is a set
        out = []
        prev = 0
        for o, k in evs:
            out.append([(o - prev) * 1000, list(KIND[k])])
            prev = o
        pong = None
        if c["lat"] >= 0:
            pong = c["lat"] * 1000 if c["stopAfter"] == 0 else {"stop_after": c["stopAfter"], "latency": c["lat"] * 1000}
        conns.append({"events": out, "pong": pong})
    run = {}
    if sc["I"]:
        run["ping_interval"] = sc["I"]
    if sc["T"]:
        run["ping_timeout"] = sc["T"]
    if sc["R"]:
        run["reconnect"] = sc["R"]
    w = {"conns": conns, "run": run, "callbacks": ["open", "reconnect", "message", "data", "error", "close", "ping", "pong"]}
    if sc["userAt"] >= 0:
        w["user"] = [[sc["userAt"] * 1000, "close"]]
    # every behaviour of the model ends before the scenario's horizon (invariant TimeBounded): a real run that is still
    # going then is ended by a watchdog close() - and differs from every behaviour of the model
    w["horizon"] = (sc["horizon"] + 5) * 1000
    return w


def real_log(sc):
    from .. import appworld, approj
    w = to_world(sc)
    log, _ = appworld.run_app(w)
    out = []
    for e in approj.project(log, w, "b"):
        if e["ev"] == "cb":
            out.append([e["name"], e["t"] / 1000.0])
        elif e["ev"] == "dial":
            out.append(["dial", e["outcome"], e["t"] / 1000.0])
        elif e["ev"] == "run_ret":
            out.append(["ret", e["value"]])
        elif e["ev"] == "run_raise":
            out.append(["raise", e["cls"]])
    return out


def replay_behaviours(ctx, pid, r):
    """spec -> code: TLC printed, for every scenario, every way the run can end as the application sees it
    (callback sequence with times, connection attempts, return value).  The real run_forever is driven through
    each scenario; what it shows must be one of the behaviours of the model."""
    import json
    groups = {}
    for b in tlc.emitted(r, "B"):
        key = json.dumps(b["sc"], sort_keys=True)
        groups.setdefault(key, (b["sc"], []))[1].append([[float(x) if isinstance(x, (int, float)) and not isinstance(x, bool) else x for x in item] for item in b["log"]])
    n = 0
    bad = 0
    for key, (sc, logs) in groups.items():
        try:
            got = real_log(sc)
        except Exception as e:      # noqa   (a run the world could not finish: reported like any other difference)
            got = [["harness", type(e).__name__]]
        gotn = [[float(x) if isinstance(x, (int, float)) and not isinstance(x, bool) else x for x in item] for item in got]
        n += 1
        if gotn not in logs:
            bad += 1
            ctx.remark("DRIFT: real run of model scenario %s shows %s, App.tla allows %s" % (key[:200], json.dumps(got)[:300], json.dumps(logs[:2])[:300]))
    ctx.notes["model_behaviours_replayed"] = {"scenarios": n, "terminal_behaviours": sum(len(l) for _, l in groups.values()), "not_reproduced": bad}
    return n, bad


def model_check(ctx, pid):
    scs = scenarios(pid, ctx.tier)
    name = "AppMC_%s" % pid
    r = tlc.run(name, cfg(invs=("MonitorOk", "CloseOnce", "SingleTransport", "TimeBounded", "NoStuck", "EmitDone")), "%s_appmc" % pid.lower(),
                gen=module(name, scs), timeout=3000)
    if not r.violated:
        replay_behaviours(ctx, pid, r)
    ctx.add_tlc(r, "App.tla (+AppMon): %d scenarios, all interleavings of Main / Ping / User / Net per tick, incl. liveness Termination" % len(scs))
    ctx.notes["model_scenarios"] = len(scs)
    if r.violated:
        ctx.machinery_error = "App.tla violated %s (last states: %s)" % (r.violated, [a for a, _ in r.cex[-3:]])
    # the model can see the repaired defects
    if pid == "C16":
        bug = [scen(I=3, T=2, conns=[conn(lat=-1)], userAt=30, horizon=40), scen(I=2, T=1, conns=[conn(lat=-1)], userAt=20, horizon=30)]
        r2 = tlc.run(name + "_bug", cfg(stamp="TRUE", props=()), "%s_appmc_bug" % pid.lower(), gen=module(name + "_bug", bug), timeout=600)
        ctx.notes["model_sees_stamp_overwrite_defect"] = r2.violated
        if "MonitorOk" not in r2.violated:
            ctx.machinery_error = "App.tla with StampAlways does not violate DetectBound: the model cannot see the defect"
        # a data frame arriving exactly when the second ping is due, every ping answered at once
        bug = [scen(I=3, T=1, conns=[conn(ev=[(6, "text")], lat=0)], userAt=11, horizon=20)]
        r3 = tlc.run(name + "_torn", cfg(torn="TRUE", props=()), "%s_appmc_torn" % pid.lower(), gen=module(name + "_torn", bug), timeout=600)
        ctx.notes["model_sees_torn_check_race"] = r3.violated
        if "MonitorOk" not in r3.violated:
            ctx.machinery_error = "App.tla with CheckTorn does not violate the monitor: the model cannot see the check() race"
        bug = [scen(I=3, T=1, conns=[conn(ev=[(4, "partial")], lat=-1)], userAt=18, horizon=25)]
        r4 = tlc.run(name + "_blk", cfg(blocking="TRUE", props=()), "%s_appmc_blk" % pid.lower(), gen=module(name + "_blk", bug), timeout=600)
        ctx.notes["model_sees_blocking_read_defect"] = r4.violated
        if "MonitorOk" not in r4.violated:
            ctx.machinery_error = "App.tla with BlockingRead does not violate the monitor: the model cannot see the mid-frame silence defect"
    if pid in ("C14", "C15"):
        bug = [scen(R=1 if pid == "C15" else 0, conns=[conn(ev=[(1, "close")]), conn(ev=[(1, "close")])], userAt=9, horizon=20)]
        r2 = tlc.run(name + "_bug", cfg(cae="TRUE", props=()), "%s_appmc_bug" % pid.lower(), gen=module(name + "_bug", bug), timeout=600)
        ctx.notes["model_sees_close_as_error_defect"] = r2.violated
        if "MonitorOk" not in r2.violated:
            ctx.machinery_error = "App.tla with CloseAsError does not violate the monitor"
    wit = {"C16": ["W_Timeout"], "C15": ["W_Reconnected"], "C14": ["W_ClosedByFrame"], "C13": ["W_ClosedByFrame"]}[pid]
    missing = tlc.witnesses(name, cfg(invs=(), props=()), wit, "%s_appmc_w" % pid.lower(), gen=module(name, scs))
    if missing:
        ctx.machinery_error = "vacuity guard: App.tla witnesses unreachable: %s" % missing
