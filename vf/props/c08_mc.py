"""ConnMC run for C08."""
from .. import tlc

SCRIPTS = """ScriptsV == { <<ServerFrame(1,0,1,<<104>>) \\o ServerFrame(1,0,9,<<>>) \\o ServerFrame(1,0,8,<<3,232>>), TRUE>>,
  <<<<>>, FALSE>>, <<<<>>, TRUE>>, <<ServerFrame(1,0,8,<<3,233>>), FALSE>>,
  <<ServerFrame(1,0,8,<<3,232>>) \\o ServerFrame(1,0,8,<<3,232>>), TRUE>>, <<ServerFrame(1,0,2,<<1>>) \\o ServerFrame(1,0,1,<<97>>), FALSE>> }
CallNamesV == {"send", "ping", "recv", "close", "close_bad", "send_close", "shutdown", "settimeout", "gettimeout", "abort"}
"""


def model_check(ctx):
    gen = {"ConnMC_a": "---- MODULE ConnMC_a ----\nEXTENDS ConnMC\n%s====\n" % SCRIPTS}
    invs = ["StepAccepts", "AtMostOneOwnClose", "ClosedIsClosed", "ReleasedMeansClosedTransport", "CloseAlwaysReleases", "NoStuck"]
    cfg = "INIT Init\nNEXT Next\nCONSTANTS\n Scripts <- ScriptsV\n CallNames <- CallNamesV\n MaxCalls = %d\n" % (3 if ctx.tier == "quick" else 5)
    r = tlc.run("ConnMC_a", cfg + "".join("INVARIANT %s\n" % i for i in invs), "c08_connmc", gen=gen, timeout=3000)
    ctx.add_tlc(r, "ConnMC: all call sequences up to the bound against every server script")
    if r.violated:
        ctx.machinery_error = "ConnMC violated %s: %s" % (r.violated, r.cex[-2:])
    missing = tlc.witnesses("ConnMC_a", cfg, ["W_Closed", "W_PeerCloseThenClose"], "c08_connmc_w", gen=gen)
    if missing:
        ctx.machinery_error = "vacuity guard: ConnMC witnesses unreachable %s" % missing
