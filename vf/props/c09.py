"""C09 - a connection is reported established only after a valid upgrade response
(spec/Http.tla Accepts, spec/ConnectM.tla, ConnectMC, TraceConnect)."""
from . import conn_common


def main(ctx):
    conn_common.run_c09(ctx)
    ctx.trusted += ["TLC 1.8 / CommunityModules", "simulated network vf/networld.py",
                    "accept value computed by the harness with hashlib/base64 from the key captured on the wire"]
    ctx.assumptions += ["response heads are generated from the class product listed in DESIGN.md; the class label "
                        "(e.g. accept = right/wrong/for the previous key) is the generator's"]


def replay(ctx, path):
    import json
    c = json.load(open(path))["case"]
    sc = c["scenario"]
    conn_common.judge(ctx, "C09", conn_common.validate(ctx, "C09", [sc], "replay"))
    for e in conn_common.run_connect(sc):
        print(e)
    return ctx.finish()
