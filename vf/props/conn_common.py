"""connect() scenarios (C09, handshake phase of C17): scripted response heads served over the
simulated network (vf/networld.py), projection onto the events of spec/ConnectM.tla, validation
by TLC (TraceConnect)."""
import base64
import concurrent.futures as cf
import itertools
import json
import os
import random
import signal

from .. import tlc, wire
from ..networld import HangForever, Peer, World

REQ_CAP = 16384


class HeadPeer(Peer):
    """Answers the first complete request with a scripted head (built from the captured key)."""

    def __init__(self, world, spec, prev_key):
        self.world = world
        self.spec = spec
        self.prev_key = prev_key
        self.req = bytearray()
        self.key = None
        self.answered = False

    def on_bytes(self, data):
        if self.answered:
            return
        self.req += data
        if b"\r\n\r\n" in self.req:
            self.answered = True
            keys = [l.split(b":", 1)[1].strip() for l in bytes(self.req).split(b"\r\n")
                    if l.lower().startswith(b"sec-websocket-key:")]
            self.key = keys[0] if keys else b""
            self.world.ev("attempt_seen", sock=self.sock.id, key=self.key.decode("latin-1"))
            raw = build_head(self.spec, self.key, self.prev_key)
            cut = self.spec.get("truncate_at")
            if cut is not None:
                raw = raw[:cut]
            self.sock.feed(raw)
            if cut is not None:
                if self.spec.get("then", "eof") == "eof":
                    self.sock.feed_eof()
            elif self.spec.get("after") == "eof":
                self.sock.feed_eof()


def right_accept(key):
    return wire.accept_for(key).decode()


def accept_value(kind, key, prev_key):
    r = right_accept(key)
    if kind == "right":
        return r
    if kind == "missing":
        return None
    if kind == "wrong":
        return base64.b64encode(b"0123456789abcdefghij").decode()
    if kind == "prevkey":
        return right_accept(prev_key if prev_key else b"dGhlIHNhbXBsZSBub25jZQ==")
    if kind == "otherkey":
        return right_accept(b"dGhlIHNhbXBsZSBub25jZQ==")
    if kind == "truncated":
        return r[:-2]
    if kind == "padded":
        return r + "A"
    if kind == "caseswapped":
        return r.swapcase()
    if kind == "empty":
        return ""
    if kind == "utf8tail":       # non-ASCII but valid UTF-8 on the wire
        return (r[:-2] + "\u00e9=").encode("utf-8").decode("latin-1")
    if kind == "latin1tail":     # a byte that is not UTF-8
        return r[:-1] + "\xe9"
    raise ValueError(kind)


def build_head(spec, key, prev_key):
    if "raw" in spec:
        return bytes(spec["raw"])
    lines = [spec.get("status_line", "HTTP/1.1 %d %s" % (spec["status"], spec.get("reason", "X")))]
    lines += list(spec.get("first", []))          # lines directly after the status line
    if spec.get("upgrade") is not None:
        lines.append("Upgrade:" + spec["upgrade"])
    if spec.get("connection") is not None:
        lines.append("Connection:" + spec["connection"])
    acc = accept_value(spec.get("accept", "right"), key, prev_key)
    if acc is not None:
        lines.append("Sec-WebSocket-Accept: " + acc)
    if spec.get("subproto") is not None:
        lines.append("Sec-WebSocket-Protocol: " + spec["subproto"])
    if spec.get("location") is not None:
        lines.append("Location: " + spec["location"])
    for x in spec.get("extra", []):
        lines.append(x)
    body = spec.get("body", "")
    out = "\r\n".join(lines).encode("latin-1") + b"\r\n\r\n" + (body.encode("latin-1") if isinstance(body, str) else bytes(body))
    return out


def tokens(v):
    if v is None:
        return []
    return [x.strip().lower() for x in v.split(",")]


def abstract_head(spec):
    if "raw" in spec:
        return {"complete": False, "status": 0, "upgrade": [], "connection": [], "accept": "none", "subproto": "",
                "location": False, "free": True}
    return {"complete": spec.get("truncate_at") is None and "status_line" not in spec,
            "status": int(spec["status"]), "upgrade": tokens(spec.get("upgrade")),
            "connection": tokens(spec.get("connection")), "accept": spec.get("accept", "right"),
            "subproto": (spec.get("subproto") or "").strip().lower(), "location": spec.get("location") is not None,
            "free": bool(spec.get("free"))}


def run_connect(sc):
    """sc: tid, chain (list of head specs), limit (None = default 3), offered (list or None),
    api ("connect"|"create_connection"), timeout.  Returns abstract events for TraceConnect."""
    import websocket
    from websocket._exceptions import WebSocketException
    ev = []
    tid = sc["tid"]

    def log(e):
        e["tid"] = tid
        e["i"] = len(ev)
        ev.append(e)

    limit = sc.get("limit")
    offered = sc.get("offered") or []
    log({"ev": "begin", "limit": 3 if limit is None else limit, "offered": [s.lower() for s in offered]})
    chain = sc["chain"]
    state = {"n": 0, "prev_key": None, "peers": []}

    prior = sc.get("prior")        # "open" | "closed": the object has been connected before (and closed, or not)

    def factory(world, sock, address):
        if prior and not state.get("prior_done"):
            state["prior_done"] = True
            p = HeadPeer(world, dict(OKHEAD), None)
            p.index = -1
            state["prior_peer"] = p
            return p
        i = state["n"]
        state["n"] += 1
        spec = chain[i] if i < len(chain) else {"status": 500}
        prev = state["peers"][-1].key if state["peers"] else None
        p = HeadPeer(world, spec, prev)
        p.index = i
        state["peers"].append(p)
        return p

    w = World(resolver={"*": ["10.0.0.1"]}, peer_factory=factory)
    opts = {}
    if limit is not None:
        opts["redirect_limit"] = limit
    if offered:
        opts["subprotocols"] = list(offered)
    ws = None
    outcome = None
    mark = 0

    def on_alarm(signum, frame):
        raise HangForever()

    old = signal.signal(signal.SIGALRM, on_alarm)
    signal.setitimer(signal.ITIMER_REAL, 10.0)
    try:
        with w:
            try:
                if sc.get("api") == "create_connection":
                    ws = websocket.create_connection("ws://origin.test/start", timeout=sc.get("timeout", 5), **opts)
                else:
                    ws = websocket.WebSocket()
                    ws.settimeout(sc.get("timeout", 5))
                    if prior:
                        ws.connect("ws://earlier.test/before")
                        if prior == "closed":
                            ws.close(timeout=0)
                        mark = len(w.log)
                        state["nsock0"] = len(w.sockets)
                    ws.connect("ws://origin.test/start", **opts)
                outcome = {"kind": "returned", "cls": "", "doc": True, "terr": False}
            except HangForever:
                outcome = {"kind": "hang"}
            except Exception as e:
                outcome = {"kind": "raised", "cls": type(e).__name__, "doc": isinstance(e, WebSocketException),
                           "terr": e is w.last_exc, "msg": str(e)[:100]}
    finally:
        signal.setitimer(signal.ITIMER_REAL, 0)
        signal.signal(signal.SIGALRM, old)
    # projection: attempts and heads in the order they happened
    closed_at = {}
    for k, e in enumerate(w.log):
        if e["ev"] == "tclose":
            closed_at.setdefault(e["sock"], k)
    for k, e in enumerate(w.log):
        if k < mark:
            continue
        if e["ev"] == "attempt_seen":
            p = [p for p in state["peers"] if p.sock.id == e["sock"]][0]
            prev_closed = True
            if p.index > 0:
                prev_sock = state["peers"][p.index - 1].sock.id
                prev_closed = prev_sock in closed_at and closed_at[prev_sock] < k
            log({"ev": "attempt", "key": e["key"], "prevClosed": prev_closed})
            log({"ev": "head", "h": abstract_head(chain[p.index] if p.index < len(chain) else {"status": 500})})
        elif e["ev"] in ("trecv", "teof", "ttimeout") and e.get("req", 0) > REQ_CAP and sc.get("declares_big"):
            log({"ev": "bigreq", "req": min(e["req"], 2000000000)})
    if outcome["kind"] == "hang":
        log({"ev": "hang"})
    else:
        obj_connected = bool(ws.connected) if ws is not None else False
        sock_none = (ws.sock is None) if ws is not None else True
        if ws is None and outcome["kind"] == "raised" and sc.get("api") != "create_connection":
            pass
        outcome.update({"ev": "outcome", "connected": obj_connected, "sockNone": sock_none,
                        "open": sum(1 for s in w.sockets[state.get("nsock0", 0):] if not s.closed),   # (transports of this call)
                        "status": int(ws.status) if (ws is not None and ws.status is not None) else -1})
        log(outcome)
    log({"ev": "end"})
    return ev


def run_connect_keepobj(sc):
    """like run_connect, but for create_connection failures the object is not reachable: connected /
    sockNone are then judged on transports only (open count)."""
    return run_connect(sc)


def _run_chunk(scs):
    out = []
    for sc in scs:
        try:
            out.append(run_connect(sc))
        except Exception as e:
            out.append([{"ev": "begin", "tid": sc["tid"], "i": 0, "limit": 0, "offered": []},
                        {"ev": "harness_error", "tid": sc["tid"], "i": 1, "what": repr(e)[:300]},
                        {"ev": "end", "tid": sc["tid"], "i": 2}])
    return out


def execute(scenarios, procs=12):
    if len(scenarios) < 300:
        return _run_chunk(scenarios)
    chunks = [scenarios[i::procs] for i in range(procs)]
    res = {}
    with cf.ProcessPoolExecutor(procs) as ex:
        for traces in ex.map(_run_chunk, chunks):
            for t in traces:
                res[t[0]["tid"]] = t
    return [res[sc["tid"]] for sc in scenarios]


def _tlc_shard(args):
    k, path, tag = args
    r = tlc.run("TraceConnect", "SPECIFICATION TSpec\nINVARIANT TBounded\nINVARIANT Report\n",
                tag, env={"TRACE_FILE": path}, workers=1, timeout=3000, heap="3g")
    return k, r


def validate(ctx, pid, scenarios, tag, shards=8):
    traces = execute(scenarios)
    nshards = max(1, min(shards, len(traces) // 100))
    d = tlc.scratch("%s_%s_traces" % (pid.lower(), tag))
    jobs = []
    for k in range(nshards):
        path = os.path.join(d, "t%d.ndjson" % k)
        with open(path, "w") as f:
            for t in traces[k::nshards]:
                for e in t:
                    f.write(json.dumps(e, separators=(",", ":")) + "\n")
        jobs.append((k, path, "%s_%s_v%d" % (pid.lower(), tag, k)))
    bad = []
    accepted = 0
    with cf.ThreadPoolExecutor(nshards) as ex:
        for k, r in ex.map(_tlc_shard, jobs):
            ctx.add_tlc(r, "TraceConnect shard %d of %s" % (k, tag))
            if r.violated:
                ctx.machinery_error = "TraceConnect invariant %s violated (%s)" % (r.violated, tag)
            v = tlc.emitted(r, "VERDICT")
            if not v:
                raise tlc.TlcError("TraceConnect produced no verdict for %s shard %d" % (tag, k))
            bad += v[0]["bad"]
            accepted += v[0]["accepted"]
    by_tid = {sc["tid"]: sc for sc in scenarios}
    tr = {t[0]["tid"]: t for t in traces}
    ctx.traces += len(traces)
    for sc in scenarios:
        ctx.case((tag, json.dumps(sc, sort_keys=True, default=repr)))
    if traces:
        ctx.sample({"family": tag, "scenario": scenarios[len(scenarios) // 2], "trace": traces[len(traces) // 2]})
    ctx.notes.setdefault("families", {})[tag] = {"traces": len(traces), "accepted": accepted, "rejected": len(bad)}
    return [(by_tid[b["tid"]], b, tr[b["tid"]]) for b in bad]


def judge(ctx, pid, rejected):
    for sc, b, trace in rejected:
        why = b["why"]
        owner = why.split(".")[0]
        rep = {"scenario": sc, "clause": why, "trace": trace}
        if owner == "harness":
            ctx.machinery_error = "harness inconsistency in trace %s: %s %s" % (sc["tid"], why, trace[-3:])
        elif owner == pid or why == "C17.undocumented_exception":
            # (an exception outside the documented ones is never the outcome any property asks for)
            out = [e for e in trace if e["ev"] in ("outcome", "hang", "bigreq")]
            ctx.deviation(finding_for(ctx, why, sc), "connect trace %s: clause %s; chain=%s limit=%s offered=%s outcome=%s"
                          % (sc["tid"], why, json.dumps(sc["chain"])[:300], sc.get("limit"), sc.get("offered"),
                             json.dumps(out[-1:])[:200]), rep)
        else:
            ctx.remark("clause %s (owned by %s) failed in a %s scenario; judged by ./check %s" % (why, owner, pid, owner))


def finding_for(ctx, clause, sc):
    for fid, f in ctx.open_findings.items():
        if f.get("clause") == clause:
            return fid
    return None


# ---------------------------------------------------------------------------------------------
# scenario families
# ---------------------------------------------------------------------------------------------
STATUSES = [101, 100, 200, 204, 301, 302, 303, 307, 308, 400, 404, 500, 102, 103, 300, 304, 305]
UPGRADES = [None, " websocket", " WebSocket", " foo, websocket", "  websocket  ", " websocketx", "", " websocket, bar"]
CONNS = [None, " Upgrade", " upgrade", " keep-alive, Upgrade", "  Upgrade  ", " Upgradex", "", " close"]
ACCEPTS = ["right", "missing", "wrong", "prevkey", "otherkey", "truncated", "padded", "caseswapped", "empty", "utf8tail"]
SUBS = [(None, None), (None, "a"), (["a", "b"], None), (["a", "b"], " a"), (["a", "b"], " A"), (["a", "b"], " c"),
        (["Chat"], " chat"), (["a", "b"], "")]


def fam_heads(rng, tier):
    out = []
    n = 0

    def add(chain, limit=None, offered=None, api=None):
        nonlocal n
        n += 1
        out.append({"tid": "hd%d" % n, "chain": chain, "limit": limit, "offered": offered,
                    "api": api or ("create_connection" if n % 3 == 0 else "connect")})
    full = list(itertools.product(STATUSES, UPGRADES, CONNS, ACCEPTS, SUBS))
    if tier == "quick":
        # every pair of classes at least once (greedy over a shuffled product) + a random slice
        rng.shuffle(full)
        need = set()
        dims = [STATUSES, UPGRADES, CONNS, ACCEPTS, list(range(len(SUBS)))]
        chosen = []
        seen_pairs = set()
        for c in full:
            c2 = (c[0], c[1], c[2], c[3], SUBS.index(c[4]))
            pairs = {(i, j, c2[i], c2[j]) for i in range(5) for j in range(i + 1, 5)}
            if not pairs <= seen_pairs:
                seen_pairs |= pairs
                chosen.append(c)
        chosen += full[:1500]
        # the valid head with each single field varied (one-factor-at-a-time around success)
        for u in UPGRADES:
            for c in CONNS:
                chosen.append((101, u, c, "right", (None, None)))
        for a in ACCEPTS:
            for sb in SUBS:
                chosen.append((101, " websocket", " Upgrade", a, sb))
        for st in STATUSES:
            chosen.append((st, " websocket", " Upgrade", "right", (None, None)))
        full = chosen
    # an interim (1xx) or other non-101 head that carries everything a switch needs, followed on the same stream by a
    # 101 head that lacks it: the first head is the response, the handshake has failed
    bare = ["HTTP/1.1 101 Switching Protocols\r\n\r\n", "HTTP/1.1 101 Switching Protocols\r\nUpgrade: websocket\r\nConnection: Upgrade\r\n\r\n",
            "HTTP/1.1 101 X\r\nSec-WebSocket-Protocol: a\r\n\r\n"]
    for st in (100, 102, 103, 199, 200):
        for b in bare:
            for off, sel in ((None, None), (["a", "b"], " a")):
                n += 1
                out.append({"tid": "hd%d" % n, "chain": [{"status": st, "upgrade": " websocket", "connection": " Upgrade", "accept": "right",
                                                          "subproto": sel, "body": b, "reason": "Early Hints"}],
                            "limit": None, "offered": off, "api": "connect" if n % 2 else "create_connection", "timeout": 2})
    for st, up, co, ac, (off, sel) in full:
        spec = {"status": st, "upgrade": up, "connection": co, "accept": ac, "subproto": sel}
        if st in (301, 302, 303, 307, 308):
            spec["location"] = "ws://other.test/next"
            add([spec, {"status": 101, "upgrade": " websocket", "connection": " Upgrade", "accept": "right"}], offered=off)
        else:
            add([spec], offered=off)
    # status lines whose status is not the three digits 101 although it begins with them / evaluates to them, with
    # everything else a switch needs: not an established connection
    for sl in ("HTTP/1.1 1010 X", "HTTP/1.1 1015 X", "HTTP/1.1 10100 X", "HTTP/1.1 101.5 X", "HTTP/1.1 101x X", "HTTP/1.1 +101 X",
               "HTTP/1.1 1_01 X", "HTTP/1.1 0101 X", "HTTP/1.1 ١٠١ X".encode("utf-8").decode("latin-1")):
        n += 1
        out.append({"tid": "hd%d" % n, "chain": [{"status": 0, "status_line": sl, "upgrade": " websocket", "connection": " Upgrade", "accept": "right",
                                                  "status_text": sl}],
                    "limit": None, "offered": None, "api": "connect" if n % 2 else "create_connection", "timeout": 2})
    # very long header lines: a line is a line whatever its length (no header may be conjured up from the middle of one)
    for L in (4096, 8192, 8193, 16384, 65536):
        for tail in ("Upgrade: websocket", "\r"):
            pad = "X-Pad: " + "p" * (L - len("X-Pad: "))
            spec = {"status": 101, "upgrade": None, "connection": " Upgrade", "accept": "right", "extra": [pad + tail]}
            n += 1
            out.append({"tid": "hd%d" % n, "chain": [spec], "limit": None, "offered": None, "api": "connect", "timeout": 2})
            spec2 = {"status": 101, "upgrade": " websocket", "connection": " Upgrade", "accept": "right", "extra": [pad]}
            n += 1
            out.append({"tid": "hd%d" % n, "chain": [spec2], "limit": None, "offered": None, "api": "connect", "timeout": 2})
    # a redirect whose Location cannot be followed (malformed, foreign scheme, empty), also on an object that is still connected
    for loc in ("http://x.test/", "nonsense", "ws://", "", "ws://[::1/x", "//h/p"):
        for st in (301, 302, 307):
            for prior in (None, "open", "closed"):
                n += 1
                sc = {"tid": "hd%d" % n, "chain": [{"status": st, "location": loc}, dict(OKHEAD)], "limit": None, "offered": None, "api": "connect", "timeout": 2}
                if prior:
                    sc["prior"] = prior
                out.append(sc)
    # the same decisions on an object that has been connected before (closed in between, or still open): a failing
    # connect() leaves it unconnected
    k = 0
    for sc in list(out):
        if sc["api"] == "connect" and (k % 6 == 0 or sc["chain"][0].get("accept") == "right"):
            n += 1
            out.append(dict(sc, tid="hd%d" % n, prior="open" if n % 2 else "closed"))
        k += 1
    return out


OKHEAD = {"status": 101, "upgrade": " websocket", "connection": " Upgrade", "accept": "right"}


def fam_redirects(rng, tier):
    out = []
    n = 0
    for length in range(0, 6):
        for limit in (None, 0, 1, 2, 3, 4):
            for final in ("ok", "bad", "prevkey"):
                for noloc_at in [None] + list(range(length)):
                    chain = []
                    for i in range(length):
                        st = [301, 302, 303, 307, 308][(i + length) % 5]
                        spec = {"status": st, "location": "ws://hop%d.test/p" % i}
                        if noloc_at == i:
                            spec["location"] = None
                        chain.append(spec)
                    last = dict(OKHEAD)
                    if final == "bad":
                        last = {"status": 404}
                    elif final == "prevkey":
                        last["accept"] = "prevkey"
                    chain.append(last)
                    n += 1
                    out.append({"tid": "rd%d" % n, "chain": chain, "limit": limit, "offered": None,
                                "api": "create_connection" if n % 2 else "connect"})
    return out


def fam_truncated(rng, tier):
    """end of stream or silence after every byte of the response head"""
    out = []
    n = 0
    heads = [dict(OKHEAD), {"status": 302, "location": "ws://x.test/"}, {"status": 404, "extra": ["Content-Length: 5"], "body": "hello"}]
    for h in heads:
        raw = build_head(h, b"x" * 24, None)
        step = 1 if tier == "thorough" else 5
        for k in list(range(0, len(raw), step)) + [len(raw) - 1]:
            for then in ("eof", "timeout"):
                spec = dict(h)
                spec["truncate_at"] = k
                spec["then"] = then
                n += 1
                out.append({"tid": "tr%d" % n, "chain": [spec, dict(OKHEAD)], "limit": None, "offered": None, "api": "connect",
                            "timeout": 2})
    return out


def fam_garbage_heads(rng, tier):
    """C17 handshake phase: exhaustive short prefixes over a small alphabet, grammar-based
    corruptions of a valid head, random bytes; declared Content-Length far beyond any buffer."""
    out = []
    n = 0

    def add(raw=None, spec=None, declares_big=False, then="eof", limit=None):
        nonlocal n
        n += 1
        s = dict(spec, free=True) if spec is not None else {"raw": list(raw), "after": then}
        out.append({"tid": "gh%d" % n, "chain": [s, dict(OKHEAD)], "limit": limit, "offered": None,
                    "api": "connect" if n % 2 else "create_connection", "timeout": 2, "declares_big": declares_big})
    alpha = [b"H", b"T", b" ", b"1", b"0", b":", b"\r", b"\n", b"\xff"]
    maxlen = 4 if tier == "quick" else 6
    for L in range(0, maxlen + 1):
        combos = itertools.product(alpha, repeat=L)
        if L >= 4 and tier == "quick":
            combos = rng.sample(list(combos), 1500)
        elif L >= 5:
            combos = rng.sample(list(itertools.product(alpha, repeat=L)), 30000 if L == 5 else 30000)
        for c in combos:
            add(raw=b"".join(c), then=rng.choice(["eof", "silence"]))
    status_lines = ["HTTP/1.1", "HTTP/1.1 ", "HTTP/1.1 abc OK", "HTTP/1.1 0 Zero", "HTTP/1.1 -1 Neg", "HTTP/1.1 99999999999999999999 Big",
                    "HTTP/1.1 101", "HTTP/1.1  101 OK", "101 OK", "", " ", "HTTP/1.1 1 0 1", "HTTP/1.1 101\tOK", "\xff\xfe 101 OK",
                    "HTTP/1.1 ١٠١ OK".encode("utf-8").decode("latin-1"), "HTTP/1.1 1e2 OK", "HTTP/1.1 0x65 OK", "HTTP/1.1 +101 OK", "HTTP/1.1 1_0_1 OK"]
    for sl in status_lines:
        for ex in ([], ["X: y"], ["Upgrade: websocket", "Connection: Upgrade"]):
            add(spec={"status": 0, "status_line": sl, "extra": ex, "accept": "right"})
    bad_lines = ["NoColonHere", ": emptyname", "X:", "\xff\xfe: v", "K: \xc3\x28", "Sec-WebSocket-Accept", "A" * 5000 + ": b", "X: " + "y" * 70000]
    for st in (101, 200, 302, 404):
        for bl in bad_lines:
            add(spec={"status": st, "upgrade": " websocket", "connection": " Upgrade", "accept": "right", "extra": [bl],
                      "location": "ws://x.test/" if st == 302 else None})
    # folded / white-space lines directly after the status line, header names and values http.cookies chokes on
    for st in (101, 200, 302, 404):
        for fl in (" folded", "\tfolded: x", " ", "\t", " Upgrade: websocket", "  : ", "\x0bX: y"):
            add(spec={"status": st, "first": [fl], "upgrade": " websocket", "connection": " Upgrade", "accept": "right",
                      "location": "ws://x.test/" if st == 302 else None})
    for ck in ("a,b=c; domain=x", "a=b; domain=x.test", "=x; domain=y", "a b=c; Domain=x", "\"=1; domain=x", "a=b; domain=", "a=b; expires=never; domain=x",
               "[]=1; domain=x", "a;b;c", ";", "a=b; domain=x; max-age=zz", "a=b; domain=never-seen.test; max-age=0", "a=b; domain=x; Max-Age=-1", "a=; domain=x; max-age=0; expires=Thu, 01 Jan 1970 00:00:00 GMT", "\xe9=1; domain=x", "k\x7f=v; domain=x", "a=b, c=d; domain=x; secure; httponly=1"):
        for st in (101, 302, 404):
            for twice in (False, True):
                add(spec={"status": st, "upgrade": " websocket", "connection": " Upgrade", "accept": "right",
                          "extra": ["Set-Cookie: " + ck] * (2 if twice else 1), "location": "ws://x.test/" if st == 302 else None})
    for ak in ("utf8tail", "latin1tail", "empty", "padded"):
        for sub in (None, " a"):
            add(spec={"status": 101, "upgrade": " websocket", "connection": " Upgrade", "accept": ak, "subproto": sub})
    for cl in ["abc", "-1", "-5", "0", "1e3", " 12 ", "12, 12", "99999999999", "100000000000", "65536", "1000000", "0x10", "", "١٢",
               # "digits" for str.isdigit() that int() refuses, and more digits than int() converts
               "\u00b2\u00b3", "\u2460", "1\u00b2", "9" * 5000, "\uff11\uff12", "1_0", "+5", "5.0"]:
        for st in (400, 404, 500, 200):
            try:
                big = cl.strip().isdigit() and int(cl) > REQ_CAP
            except ValueError:
                big = False
            for then in ("eof", "silence"):
                add(spec={"status": st, "extra": ["Content-Length: " + (cl.encode("utf-8").decode("latin-1"))], "body": "oops", "after": then},
                    declares_big=big)
    for st in (301, 302, 307):
        add(spec={"status": st})                      # redirect without Location
        add(spec={"status": st, "location": ""})
        add(spec={"status": st, "location": "http://x.test/"})
        add(spec={"status": st, "location": "nonsense"})
        add(spec={"status": st, "location": "ws://"})
        for loc in ("ws://[::1/x", "//[fe80::1/", "ws://host]:80/", "ws://[", "ws://]", "ws://\u2100.test/", "/relative", "../up", "?q", "#frag",
                    "ws://h:notaport/", "ws://h:99999/", "ws://:80/", "ws://h:-1/"):
            add(spec={"status": st, "location": loc.encode("utf-8").decode("latin-1")})
        add(spec={"status": st}, limit=0)
    # the failing cases once more on an object that is still connected from an earlier call: it must end unconnected
    for sc in list(out):
        first = sc["chain"][0]
        if sc["api"] == "connect" and "raw" not in first and (first.get("status") in (301, 302, 307) or first.get("first") or "Set-Cookie" in str(first.get("extra"))):
            n += 1
            out.append(dict(sc, tid="gh%d" % n, prior="open"))
    for _ in range(400 if tier == "quick" else 20000):
        raw = bytearray(build_head(dict(OKHEAD, extra=["Set-Cookie: a=b; Domain=x.test"]), b"k" * 24, None))
        m = rng.random()
        if m < 0.4:
            raw[rng.randrange(len(raw))] = rng.randrange(256)
        elif m < 0.6:
            del raw[rng.randrange(len(raw))]
        elif m < 0.8:
            raw.insert(rng.randrange(len(raw)), rng.randrange(256))
        else:
            raw = raw[:rng.randrange(len(raw))]
        add(raw=bytes(raw), then=rng.choice(["eof", "silence"]))
    for _ in range(300 if tier == "quick" else 20000):
        add(raw=bytes(rng.randrange(256) for _ in range(rng.randrange(1, 60))), then=rng.choice(["eof", "silence"]))
    return out


def model_check(ctx, pid):
    gen = {"ConnectMC_a": '---- MODULE ConnectMC_a ----\nEXTENDS ConnectMC\nOffersV == {<<>>, <<"a","b">>}\n====\n'}
    invs = ["ConnectedOnlyIfValid", "RedirectNeverSuccess", "RedirectsBounded", "FreshKeys", "Progress"]
    cfg = ("INIT Init\nNEXT Next\nCONSTANTS\n Limits = %s\n MaxChain = %d\n Offers <- OffersV\n"
           % ("{0,1,2}" if ctx.tier == "quick" else "{0,1,2,3,4}", 4 if ctx.tier == "quick" else 6)) \
        + "".join("INVARIANT %s\n" % i for i in invs)
    r = tlc.run("ConnectMC_a", cfg, "%s_connectmc" % pid.lower(), gen=gen, timeout=3000)
    ctx.add_tlc(r, "ConnectMC: all chains of response-head classes against every redirect limit")
    if r.violated:
        ctx.machinery_error = "ConnectMC violated %s" % r.violated
    missing = tlc.witnesses("ConnectMC_a", cfg.split("INVARIANT")[0], ["W_Connected", "W_Followed"],
                            "%s_connectmc_w" % pid.lower(), gen=gen)
    if missing:
        ctx.machinery_error = "vacuity guard: ConnectMC witnesses unreachable: %s" % missing


def run_c09(ctx):
    rng = random.Random(ctx.seed * 9176 + 9)
    model_check(ctx, "C09")
    for tag, fn in (("response_heads", fam_heads), ("redirect_chains", fam_redirects), ("truncated_heads", fam_truncated)):
        judge(ctx, "C09", validate(ctx, "C09", fn(rng, ctx.tier), tag))
    negative_controls(ctx, "C09")


def run_c17(ctx):
    rng = random.Random(ctx.seed * 9176 + 17)
    for tag, fn in (("garbage_heads", fam_garbage_heads), ("truncated_heads", fam_truncated)):
        judge(ctx, "C17", validate(ctx, "C17", fn(rng, ctx.tier), tag))


def negative_controls(ctx, pid):
    import copy
    base = run_connect({"tid": "n", "chain": [{"status": 302, "location": "ws://b.test/"}, dict(OKHEAD)], "limit": 1, "offered": None})
    vs = []

    def clone(tid):
        t = copy.deepcopy(base)
        for e in t:
            e["tid"] = tid
        return t
    t = clone("neg_accept")
    [e for e in t if e["ev"] == "head"][1]["h"]["accept"] = "wrong"
    vs.append(t)
    t = clone("neg_limit")
    t[0]["limit"] = 0
    vs.append(t)
    t = clone("neg_open")
    [e for e in t if e["ev"] == "outcome"][0]["open"] = 2
    vs.append(t)
    t = clone("neg_samekey")
    a = [e for e in t if e["ev"] == "attempt"]
    a[1]["key"] = a[0]["key"]
    vs.append(t)
    vs.append(clone("pos"))
    d = tlc.scratch("%s_neg_traces" % pid.lower())
    path = os.path.join(d, "neg.ndjson")
    with open(path, "w") as f:
        for t in vs:
            for i, e in enumerate(t):
                e["i"] = i
                f.write(json.dumps(e) + "\n")
    _, r = _tlc_shard((0, path, "%s_neg" % pid.lower()))
    v = tlc.emitted(r, "VERDICT")[0]
    rej = {b["tid"]: b["why"] for b in v["bad"]}
    ctx.notes["negative_controls"] = {"rejected": rej, "accepted": v["accepted"]}
    if set(rej) != {"neg_accept", "neg_limit", "neg_open", "neg_samekey"} or v["accepted"] != 1:
        ctx.machinery_error = "negative controls (connect): got %s / %d" % (rej, v["accepted"])
