"""C14 - see DESIGN.md section 4; spec/AppMon.tla (monitor), spec/App.tla (process model), vf/props/app_common.py."""
from . import app_common


def main(ctx):
    app_common.run_for(ctx, "C14")


def replay(ctx, path):
    return app_common.replay(ctx, "C14", path)
