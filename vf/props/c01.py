"""C01 - every frame written is a well-formed masked RFC 6455 frame with exact payload.
spec/Codec.tla is the definition (encoder and independent decoder cross-checked by TLC in CodecMC);
every frame the real client writes is recorded and judged by TLC (SendBatch)."""
import hashlib
import json
import os
import random

from .. import tlc, wire
from ..recvworld import FakeSock, Hang


def utf8_encode(s):
    """independent UTF-8 encoder (not str.encode)"""
    out = bytearray()
    for ch in s:
        c = ord(ch)
        if c < 0x80:
            out.append(c)
        elif c < 0x800:
            out += bytes([0xC0 | c >> 6, 0x80 | c & 63])
        elif c < 0x10000:
            out += bytes([0xE0 | c >> 12, 0x80 | (c >> 6) & 63, 0x80 | c & 63])
        else:
            out += bytes([0xF0 | c >> 18, 0x80 | (c >> 12) & 63, 0x80 | (c >> 6) & 63, 0x80 | c & 63])
    return bytes(out)


ALL_SOURCES = []      # every key source handed to the library so far (each belongs to one connection)


class KeySource:
    def __init__(self, kind, rng):
        self.kind = kind
        self.rng = rng
        self.draws = []
        self.total = 0
        ALL_SOURCES.append(self)

    def __call__(self, n):
        self.total += 1
        if self.kind in ("zero", "counter", "ones"):
            # keys a hardened implementation might be tempted to "improve": all zero (no masking effect), 0,1,2,.., all ones
            k = len(self.draws)
            v = bytes(n) if self.kind == "zero" else b"\xff" * n if self.kind == "ones" else k.to_bytes(n, "big")
            self.draws.append((n, list(v)))
        elif self.kind == "str":
            v = "".join(chr(self.rng.randrange(33, 127)) for _ in range(n))
            self.draws.append((n, list(v.encode("latin-1"))))
        else:
            v = bytes(self.rng.randrange(256) for _ in range(n))
            self.draws.append((n, list(v)))
        return v


def one_call(api, op, fin, payload, keykind, trace_on, rng, urandom_draws, write_cap=None):
    try:
        return _one_call(api, op, fin, payload, keykind, trace_on, rng, urandom_draws, write_cap)
    except (Exception, Hang) as e:      # (Hang: the call went on writing far beyond any frame it could have been asked for)
        return {"api": api, "fin": fin, "op": op, "n": -1, "raised": "%s: %s" % (type(e).__name__, str(e)[:80] or "the call kept writing to the transport without end"),
                "ptype": type(payload).__name__, "keyKind": keykind, "trace": bool(trace_on), "payload_repr": repr(payload)[:80]}


def _one_call(api, op, fin, payload, keykind, trace_on, rng, urandom_draws, write_cap=None):
    """payload: bytes / bytearray / str.  Returns the event."""
    import websocket
    from websocket._abnf import ABNF
    sc = {"stream": b"", "cuts": [], "timeouts": [], "write_cap": write_cap}
    log = []
    fake = FakeSock(sc, log.append)
    ks = None
    if keykind == "default":
        ws = websocket.WebSocket()
    else:
        ks = KeySource(keykind, rng)
        how = rng.random()
        if how < 0.4:
            ws = websocket.WebSocket(get_mask_key=ks)
        elif how < 0.7:
            ws = websocket.WebSocket()
            ws.set_mask_key(ks)
        else:
            # the key source handed to create_connection() (the handshake runs over the same scripted transport)
            sc = dict(sc, via_connect=True)
            fake = FakeSock(sc, log.append)
            ws = websocket.create_connection("ws://example.test/chat", socket=fake, get_mask_key=ks)
            fake.frame_phase = True
            fake.sent.clear()
    if not getattr(ws, "connected", False):
        ws.sock = fake
        ws.connected = True
    history = ""
    if api.startswith("after_broken_"):
        # the object has a history: a frame of an earlier connection that the transport accepted only in part before a send
        # timed out; that connection then ended (end of stream seen by a read / close() / nothing at all) and the same object
        # was connected again - the frame judged is the first one written on the new connection
        import socket as _pysocket
        history = api[len("after_broken_"):]
        orig, cnt = fake.send, [0]

        def breaking_send(data):
            cnt[0] += 1
            if cnt[0] > 1:
                raise _pysocket.timeout("timed out")
            return orig(bytes(data)[:max(1, len(data) // 3)])
        fake.send = breaking_send
        try:
            ws.send_binary(rng.randbytes(rng.choice([40, 5000, 200000])))
        except Exception:      # noqa   (the timeout of that earlier send)
            pass
        fake.send = orig
        if history == "eof":
            try:
                ws.recv()
            except Exception:      # noqa   (connection lost)
                pass
        elif history == "close":
            ws.close(timeout=0)
        sc = dict(sc, via_connect=True)
        fake = FakeSock(sc, log.append)
        ws.connect("ws://example.test/again", socket=fake)
        fake.frame_phase = True
        fake.sent.clear()
        if ks is not None:
            ks.draws.clear()
        api = "send_binary"
    foreign0 = sum(k.total for k in ALL_SOURCES if k is not ks)
    n0 = len(urandom_draws)
    nullh = None
    if trace_on:
        import logging
        nullh = logging.NullHandler()
        websocket.enableTrace(True, handler=nullh, level="DEBUG")
    try:
        if api == "send":
            ret = ws.send(payload, op)
        elif api == "send_text":
            ret = ws.send_text(payload)
        elif api == "send_binary":
            ret = ws.send_binary(payload)
        elif api == "send_bytes":
            ret = ws.send_bytes(payload)
        elif api == "ping":
            ws.ping(payload)
            ret = -1
        elif api == "pong":
            ws.pong(payload)
            ret = -1
        elif api == "close":
            status, reason = payload
            ws.close(status=status, reason=reason, timeout=0)
            ret = -1
        elif api == "send_close":
            status, reason = payload
            ws.send_close(status, reason)
            ret = -1
        elif api == "send_frame":
            ret = ws.send_frame(ABNF.create_frame(payload, op, fin))
        elif api == "resend_frame":
            # the same frame object sent twice, its bytearray payload refilled in place in between:
            # the second frame on the wire is judged (fresh key, current payload)
            first, second = payload
            buf = bytearray(first)
            frame = ABNF.create_frame(buf, op, fin)
            ws.send_frame(frame)
            buf[:] = second
            fake.sent.clear()
            n0 = len(urandom_draws)
            if ks is not None:
                ks.draws.clear()
            ret = ws.send_frame(frame)
            payload = bytes(second)
        else:
            raise ValueError(api)
    finally:
        if trace_on:
            import logging
            websocket.enableTrace(False, handler=nullh)
            logging.getLogger("websocket").handlers = [h for h in logging.getLogger("websocket").handlers if not isinstance(h, logging.NullHandler)] or [logging.NullHandler()]
    data = b"".join(fake.sent)
    if api in ("close", "send_close"):
        status, reason = payload
        expect = bytes([status >> 8, status & 255]) + (reason if isinstance(reason, bytes) else utf8_encode(reason))
    elif isinstance(payload, str):
        expect = utf8_encode(payload)
    else:
        expect = bytes(payload)
    n = len(expect)
    hl = 2 if n <= 125 else 4 if n <= 65535 else 10
    head = list(data[:hl + 4])
    region = data[hl + 4:]
    key = data[hl:hl + 4]
    if keykind == "default":
        draws = [[k, list(v)] for k, v in urandom_draws[n0:]]
    else:
        draws = [[k, v] for k, v in ks.draws]
    ev = {"api": api, "fin": fin, "op": op, "n": n, "head": head, "wireLen": len(data), "ret": -1 if ret is None else int(ret),
          "foreignDraws": sum(k.total for k in ALL_SOURCES if k is not ks) - foreign0,
          "draws": draws, "keyKind": keykind, "writes": len(fake.sent), "trace": bool(trace_on),
          "ptype": type(payload).__name__}
    if history:
        ev["history"] = "earlier connection broken inside a frame, ended by " + history
    if n <= 512:
        ev.update({"payload": list(expect), "wire": list(region), "samples": [], "bulkOk": True})
    else:
        pos = set(range(8)) | set(range(n - 8, n)) | {p for c in (125, 126, 65535, 65536) for p in range(c - 4, c + 4) if 0 <= p < n}
        pos |= {rng.randrange(n) for _ in range(32)}
        pos = sorted(p for p in pos if p < len(region))
        # every other position: independent decoder in the harness, reported as a boolean + digest
        try:
            frames = wire.decode_client_frames(data)
            bulk = len(frames) == 1 and frames[0]["payload"] == expect
        except Exception:
            bulk = False
        ev.update({"payload": [], "wire": [], "samples": [[p, expect[p], region[p]] for p in pos], "bulkOk": bool(bulk),
                   "sha256": hashlib.sha256(expect).hexdigest()})
    return ev


def gen_calls(rng, tier):
    calls = []
    lens = set(range(0, 301)) | {c + d for c in (125, 126, 65535, 65536) for d in range(-3, 4)}
    lens |= {rng.randrange(0, 70001) for _ in range(200)}
    if tier == "thorough":
        lens |= set(range(0, 70001))
        lens |= {rng.randrange(70001, 1 << 21) for _ in range(300)}
    else:
        lens |= {1 << 17, (1 << 20) + 3}
    lens = sorted(lens)
    kinds = ["default", "bytes", "str"]
    # the same call on a connection with its own key source and then on one with the default source (and back):
    # nothing of one connection's source may be used for another connection
    for api, op, pl in (("ping", 9, b""), ("ping", 9, b"x"), ("pong", 10, b""), ("send_binary", 2, b""), ("send_binary", 2, b"ab"), ("close", 8, (1000, b""))):
        for kk in ("bytes", "default", "str", "default", "bytes"):
            calls.append((api, op, 1, pl, kk, False))
    for mode in ("eof", "close", "direct"):
        for n in (0, 5, 126, 70000):
            for kk in kinds:
                calls.append(("after_broken_" + mode, 2, 1, rng.randbytes(n), kk, False))
    for kk in ("zero", "counter", "ones"):
        for n in (0, 1, 5, 125, 126, 300, 65536):
            for api in ("send_binary", "send_frame", "ping", "resend_frame"):
                if api == "ping" and n > 125:
                    continue
                pl = rng.randbytes(n)
                calls.append((api, 9 if api == "ping" else 2, 1, (pl, rng.randbytes(n)) if api == "resend_frame" else pl, kk, False))
        calls.append(("close", 8, 1, (1000, b"bye"), kk, False))
    for n in lens:
        api = rng.choice(["send", "send_binary", "send_bytes", "send_frame"])
        ptype = rng.choice([bytes, bytearray]) if api != "send_binary" else bytes
        payload = ptype(rng.randbytes(n) if n < 5000 else (rng.randbytes(64) * (n // 64 + 1))[:n])
        op = 2 if api != "send_frame" else rng.choice([0, 1, 2])
        fin = 1 if api != "send_frame" else rng.choice([0, 1])
        if api == "send_frame" and op == 1:
            payload = bytes(b & 0x7F for b in payload)
        calls.append((api, op, fin, payload, kinds[n % 3], n % 11 == 0 and n < 2000))
    # text: arbitrary encodable Unicode
    alphabet = ["a", "é", "߿", "ࠀ", "€", "￿", "\U00010000", "\U0010ffff", "\x00", "퟿", "", " "]
    for i in range(400 if tier == "quick" else 6000):
        k = rng.choice([0, 1, 2, 3, 10, 41, 42, 43, 60, 125, 126, 127, 300, 2000])
        s = "".join(rng.choice(alphabet) if rng.random() < 0.7 else chr(rng.choice([rng.randrange(0, 0xD800), rng.randrange(0xE000, 0x110000)]))
                    for _ in range(k))
        api = rng.choice(["send", "send_text", "send_frame"])
        calls.append((api, 1, 1 if api != "send_frame" else rng.choice([0, 1]), s, rng.choice(kinds), i % 7 == 0))
    # str subclasses whose str() is not their characters (an Enum member, an object with its own __str__): the characters go out
    import enum

    class Cmd(str, enum.Enum):
        PING = "ping-\u00e9"

    class Loud(str):
        def __str__(self):
            return "LOUD"

        def __repr__(self):
            return "LOUD"
    for txt in (Cmd.PING, Loud("quiet \u2603")):
        for api in ("send", "send_text", "send_frame"):
            for op in ((1, 0) if api == "send_frame" else (1,)):
                calls.append((api, op, 1, txt, rng.choice(kinds), False))
    # the continuation frames of a text message built from str, as the documentation of send_frame() shows
    for txt in ("Foo Bar", "grüße", "日本語", "a\U0001F600b", "é", ""):
        for fin in (0, 1):
            calls.append(("send_frame", 0, fin, txt, rng.choice(kinds), False))
    # control frames: all legal sizes
    for n in range(0, 126):
        for api, op in (("ping", 9), ("pong", 10), ("send", 9), ("send", 10), ("send_frame", 8)):
            if tier == "quick" and n % 5 and n not in (124, 125):
                continue
            pl = rng.randbytes(n) if rng.random() < 0.7 else "".join(rng.choice("abcé") for _ in range(n // 2))
            if api == "send" or api == "send_frame":
                pl = pl if isinstance(pl, bytes) else utf8_encode(pl)
                if len(pl) > 125:
                    pl = pl[:125]
            elif isinstance(pl, str) and len(utf8_encode(pl)) > 125:
                pl = pl[:60]
            calls.append((api, op, 1, pl, rng.choice(kinds), False))
    for n in (0, 1, 5, 125, 126, 300, 70000):
        for kk in kinds:
            a, b = rng.randbytes(n), rng.randbytes(n)
            calls.append(("resend_frame", 2, rng.choice([0, 1]), (a, b), kk, False))
    for status in (0, 1000, 1001, 1011, 3000, 4999, 65535):
        for reason in (b"", b"bye", "grüße".encode(), b"r" * 123):
            calls.append(("close", 8, 1, (status, reason), rng.choice(kinds), False))
            calls.append(("send_close", 8, 1, (status, reason), rng.choice(kinds), False))
    return calls


def main(ctx):
    rng = random.Random(ctx.seed * 101 + 1)
    lens = "{0,1,2,3,4,5,6,7,8,124,125,126,127,128,300,65533,65534,65535,65536,65537,65538,70000,1048576}"
    gen = {"CodecMC_q": "---- MODULE CodecMC_q ----\nEXTENDS CodecMC\nLensV == %s\nKeysV == {<<0,0,0,0>>, <<1,2,3,4>>, <<255,128,77,10>>}\n====\n" % lens}
    invs = ["RoundTrip", "Shortest", "ShortestHeader", "HeaderExact", "Prefixes"]
    r = tlc.run("CodecMC_q", "INIT Init\nNEXT Next\nCONSTANTS\n Lens <- LensV\n Keys <- KeysV\n" + "".join("INVARIANT %s\n" % i for i in invs),
                "c01_codecmc", gen=gen, timeout=1800)
    ctx.add_tlc(r, "CodecMC: encoder/decoder of the specification invert each other, shortest length form")
    if r.violated:
        ctx.machinery_error = "CodecMC violated %s" % r.violated
    calls = gen_calls(rng, ctx.tier)
    real = os.urandom
    udraws = []

    def spy(n):
        v = real(n)
        udraws.append((n, v))
        return v
    os.urandom = spy
    ev = []
    try:
        for ci, (api, op, fin, payload, kk, tr) in enumerate(calls):
            # every third call goes through a transport that takes the frame in several short writes
            cap = None if ci % 3 else rng.choice([1, 2, 3, 7, 64, 1000, 4096])
            if cap is not None:
                size = len(payload) if not isinstance(payload, tuple) else (len(payload[0]) if isinstance(payload[0], bytes) else 130)
                cap = max(cap, size // 40 + 1)
            ev.append(one_call(api, op, fin, payload, kk, tr, rng, udraws, write_cap=cap))
    finally:
        os.urandom = real
    for e in [e for e in ev if "raised" in e]:
        ctx.deviation(None, "%s(op=%s, fin=%s, payload %s %s) raised %s" % (e["api"], e["op"], e["fin"], e["ptype"], e["payload_repr"], e["raised"]),
                      {"event": e})
    ev = [e for e in ev if "raised" not in e]
    dkeys = [tuple(e["head"][-4:]) for e in ev if e["keyKind"] == "default" and "raised" not in e]
    varies = len(dkeys) < 20 or len(set(dkeys)) >= len(dkeys) * 0.99
    for e in ev:
        e["keyVaries"] = bool(varies)
    # successive default-key frames must use distinct draws (a constant or reused key fails)
    dk = [tuple(e["head"][-4:]) for e in ev if e["keyKind"] == "default"]
    ctx.notes["distinct_default_keys"] = "%d of %d" % (len(set(dk)), len(dk))
    if len(dk) > 50 and len(set(dk)) < len(dk) * 0.99:
        ctx.deviation(None, "default mask keys repeat: %d distinct among %d frames" % (len(set(dk)), len(dk)), {"keys": dk[:20]})
    shards = 8 if len(ev) > 4000 else 2
    d = tlc.scratch("c01_in")
    import concurrent.futures as cf

    def job(k):
        path = os.path.join(d, "s%d.ndjson" % k)
        tlc.write_ndjson(path, ev[k::shards])
        return k, tlc.run("SendBatch", "INIT Init\nNEXT Next\n", "c01_batch%d" % k, env={"TRACE_FILE": path}, workers=1, timeout=3000, heap="4g")
    with cf.ThreadPoolExecutor(shards) as ex:
        for k, r in ex.map(job, range(shards)):
            ctx.add_tlc(r, "SendBatch shard %d" % k)
            v = tlc.emitted(r, "BAD")[0]
            part = ev[k::shards]
            assert v["n"] == len(part)
            for i, faults in v["bad"]:
                e = part[i - 1]
                small = {kk: vv for kk, vv in e.items() if kk not in ("payload", "wire", "samples")}
                ctx.deviation(None, "%s(op=%d, fin=%d, %d bytes %s, key source %s, trace=%s): %s; head=%s ret=%s wireLen=%s draws=%s"
                              % (e["api"], e["op"], e["fin"], e["n"], e["ptype"], e["keyKind"], e["trace"], faults, e["head"], e["ret"],
                                 e["wireLen"], str(e["draws"])[:80]), {"event": small, "faults": faults})
    ctx.traces += len(ev)
    for e in ev:
        ctx.case((e["api"], e["op"], e["fin"], e["n"], e["keyKind"], e["ptype"], e["trace"]), nontrivial=e["n"] > 0)
    ctx.sample({k: v for k, v in ev[200].items() if k not in ("payload", "wire")})
    ctx.notes["lengths_covered"] = len({e["n"] for e in ev})
    # negative control
    neg = json.loads(json.dumps(ev[300:302]))
    neg[0]["head"][1] &= 0x7F
    neg[1]["ret"] = neg[1]["n"]
    p2 = os.path.join(d, "neg.ndjson")
    tlc.write_ndjson(p2, neg)
    r2 = tlc.run("SendBatch", "INIT Init\nNEXT Next\n", "c01_neg", env={"TRACE_FILE": p2}, workers=1, timeout=300)
    nb = sorted(i for i, _ in tlc.emitted(r2, "BAD")[0]["bad"])
    ctx.notes["negative_controls"] = nb
    if nb != [1, 2]:
        ctx.machinery_error = "C01 negative controls not rejected: %s" % nb
    ctx.trusted += ["TLC 1.8", "harness decoder vf/wire.py for payload positions beyond the sampled ones of frames > 512 bytes",
                    "harness UTF-8 encoder"]
    ctx.assumptions += ["transport accepts every write in full here (short writes: C12)"]


def replay(ctx, path):
    c = json.load(open(path))["case"]
    print(json.dumps(c, indent=1)[:3000])
    return 0
