"""C07 - see DESIGN.md section 4 and vf/props/recv_common.py (receive machine, spec/Recv.tla)."""
from . import recv_common


def after_own_close(ctx):
    """Pings are answered for as long as the peer may send them: also after the application has sent its own close
    frame (send_close) and keeps reading until the peer's close arrives.  Connection-level scenarios of C08's world."""
    import itertools
    from . import c08
    scs = []
    n = 0
    for sv in ("pings_data_close", "ping_flood", "data_ping_close_eof"):
        for pre in ([], ["send"], ["ping"], ["recv"], ["send_close"]):
            for closer in ("send_close", "send_close_bad"):
                for k in (2, 4, 7):
                    n += 1
                    scs.append({"tid": "ac%d" % n, "server": sv, "calls": pre + [closer] + ["recv"] * k})
    for sc, b, trace in c08.validate(ctx, scs, "after_own_close"):
        why = b["why"]
        owner = why.split(".")[0]
        if owner == "harness":
            ctx.machinery_error = "harness inconsistency %s in %s" % (why, sc)
        elif owner == "C07" or why in ("C08.open_connection_reported_closed", "C08.raised_although_connection_alive"):
            ctx.deviation(None, "calls %s against server '%s': event %d breaks %s; %s" % (
                sc["calls"], sc["server"], b["at"], why,
                [{k: v for k, v in e.items() if k in ("ev", "api", "t", "cls", "bytes")} for e in trace[max(0, b["at"] - 4):b["at"] + 1]]),
                {"scenario": sc, "clause": why, "at": b["at"], "trace": trace})
        else:
            ctx.remark("clause %s failed in a C07 connection scenario; judged by ./check %s" % (why, owner))
    for sc in scs:
        ctx.case(("after_own_close", sc["server"], tuple(sc["calls"])))


def main(ctx):
    recv_common.run_for(ctx, "C07")
    after_own_close(ctx)
    # the automatic pong while other threads of the same connection send pings / pongs of their own (schedules of C12's
    # world): the answer carries the payload of the server's ping, whole and once
    from . import c12
    c12.validate_schedules(ctx, "C07", c12.ping_scenarios(ctx.tier), "c07_sched", own=("C12", "C07"))
    ctx.trusted += ["TLC 1.8 / CommunityModules", "harness: scripted transport + projection (vf/recvworld.py)",
                    "independent frame builder vf/wire.py"]
    ctx.assumptions += ["transport behaviour is simulated (scripted cuts, timeouts, EOF, reset)"]


def replay(ctx, path):
    return recv_common.replay(ctx, "C07", path)
