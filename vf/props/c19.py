"""C19 - proxying is decided by options, environment and no_proxy exactly as documented; the
CONNECT tunnel.  spec/Target.tla: Exempt over label sequences / octet tuples, Decision, TunnelFaults;
TargetMC cross-checks the exemption definition; the real _is_no_proxy_host / get_proxy_info /
connect() are run on the enumerated space and judged by TLC (TargetBatch)."""
import base64
import ipaddress
import itertools
import json
import os
import random

from .. import tlc
from ..networld import Peer, World
from . import c18
from .conn_common import build_head, OKHEAD

LABELS = ["a", "b", "ab", "ba"]
# variables that other tools read but that the property does not name: whatever they hold, they decide nothing
UNRELATED_VARS = ["all_proxy", "ALL_PROXY", "ws_proxy", "wss_proxy", "WS_PROXY", "WSS_PROXY", "socks_proxy", "SOCKS_PROXY", "ftp_proxy",
                  "proxy", "PROXY"]
PROXY_VARS = ["http_proxy", "HTTP_PROXY", "https_proxy", "HTTPS_PROXY", "no_proxy", "NO_PROXY"] + UNRELATED_VARS


def names(maxlen):
    out = []
    for k in range(1, maxlen + 1):
        out += [list(x) for x in itertools.product(LABELS, repeat=k)]
    return out


def entry_text(en):
    if en["kind"] == "star":
        return "*"
    if en["kind"] == "host":
        return ".".join(en["labels"])
    if en["kind"] == "dot":
        return "." + ".".join(en["labels"])
    if en["kind"] == "ip":
        return ".".join(str(o) for o in en["octets"])
    return "%s/%d" % (".".join(str(o) for o in en["net"]), en["prefix"])


def host_text(h):
    return ".".join(h["labels"]) if h["kind"] == "name" else ".".join(str(o) for o in h["octets"])


class clean_env:
    def __init__(self, **kv):
        self.kv = kv

    def __enter__(self):
        self.saved = {k: os.environ.get(k) for k in PROXY_VARS}
        for k in PROXY_VARS:
            os.environ.pop(k, None)
        for k, v in self.kv.items():
            if v:
                os.environ[k] = v

    def __exit__(self, *a):
        for k in PROXY_VARS:
            os.environ.pop(k, None)
        for k, v in self.saved.items():
            if v is not None:
                os.environ[k] = v


def exempt_events(ctx, rng):
    from websocket._url import _is_no_proxy_host
    ev = []
    hosts = [{"kind": "name", "labels": n} for n in names(3)]
    entries = [{"kind": "star"}] + [{"kind": "host", "labels": n} for n in names(2)] + [{"kind": "dot", "labels": n} for n in names(2)]
    lists = [[e] for e in entries]
    pairs = list(itertools.combinations(entries, 2))
    lists += pairs if ctx.tier == "thorough" else rng.sample(pairs, 60)
    for h in hosts:
        for li, lst in enumerate(lists):
            lst = list(lst)
            if ctx.tier == "quick" and len(lst) == 2 and rng.random() < 0.5:
                continue
            via_env = (li + len(h["labels"])) % 3
            texts = [entry_text(e) for e in lst]
            if via_env == 0:
                with clean_env():
                    got = _is_no_proxy_host(host_text(h), texts)
            else:
                with clean_env(**{("no_proxy" if via_env == 1 else "NO_PROXY"): ", ".join(texts)}):
                    got = _is_no_proxy_host(host_text(h), None)
            ev.append({"ev": "exempt", "host": h, "list": lst, "got": bool(got), "source": ["option", "no_proxy", "NO_PROXY"][via_env]})
    # IPv4: every prefix length, addresses around the block
    base = int(ipaddress.IPv4Address("10.20.30.40"))
    for base in (int(ipaddress.IPv4Address("10.20.30.40")), int(ipaddress.IPv4Address("203.0.113.255")), int(ipaddress.IPv4Address("128.0.0.1"))):
        for p in range(0, 33):
            mask = (0xFFFFFFFF << (32 - p)) & 0xFFFFFFFF
            net = base & mask
            last = net | (~mask & 0xFFFFFFFF)
            cands = {net, last, (last + 1) & 0xFFFFFFFF, (net - 1) & 0xFFFFFFFF, base}
            for a in cands:
                octs = lambda v: [(v >> 24) & 255, (v >> 16) & 255, (v >> 8) & 255, v & 255]
                h = {"kind": "ip", "octets": octs(a)}
                lst = [{"kind": "cidr", "net": octs(net), "prefix": p}]
                if rng.random() < 0.3:
                    lst.insert(0, {"kind": "dot", "labels": ["a"]})
                with clean_env():
                    got = _is_no_proxy_host(host_text(h), [entry_text(e) for e in lst])
                ev.append({"ev": "exempt", "host": h, "list": lst, "got": bool(got), "source": "option"})
        h = {"kind": "ip", "octets": [10, 20, 30, 40]}
        for lst in ([{"kind": "ip", "octets": [10, 20, 30, 40]}], [{"kind": "ip", "octets": [10, 20, 30, 41]}], [{"kind": "host", "labels": ["a"]}]):
            with clean_env():
                got = _is_no_proxy_host(host_text(h), [entry_text(e) for e in lst])
            ev.append({"ev": "exempt", "host": h, "list": lst, "got": bool(got), "source": "option"})
    return ev


def decision_events(ctx, rng):
    from websocket._exceptions import WebSocketProxyException
    from websocket._url import get_proxy_info
    ev = []
    host = {"kind": "name", "labels": ["ab", "b"]}
    exempting = [{"kind": "dot", "labels": ["b"]}]
    nonex = [{"kind": "dot", "labels": ["a"]}, {"kind": "host", "labels": ["ba", "b"]}]
    nplists = [[], exempting, nonex]
    dims = [[False, True], ["", "proxy.opt"], [0, 3128], ["", "envl.test"], ["", "ENVU.test"], ["", "wrong.test"],
            [0, 1, 2], [0, 1, 2], [0, 1, 2]]
    for secure, oh, op, el, eu, wrong, npo, npl, npu in itertools.product(*dims):
        if ctx.tier == "quick" and rng.random() < 0.55:
            continue
        var = "https_proxy" if secure else "http_proxy"
        other = "http_proxy" if secure else "https_proxy"
        env = {}
        if el:
            env[var] = "http://%s:8081" % el
        if eu:
            env[var.upper()] = "http://%s:8082/" % eu
        if wrong:
            env[other] = "http://%s:1" % wrong
            env[other.upper()] = "http://%s:2" % wrong
            for k, v in enumerate(UNRELATED_VARS):
                env[v] = "http://user:pw@%s:%d" % (wrong, 3 + k)
        if npl:
            env["no_proxy"] = ",".join(entry_text(e) for e in nplists[npl])
        if npu:
            env["NO_PROXY"] = ", ".join(entry_text(e) for e in nplists[npu])
        with clean_env(**env):
            try:
                ph, pp, pa = get_proxy_info(host_text(host), secure, oh or None, op, None,
                                            [entry_text(e) for e in nplists[npo]] or None)
                got = {"kind": "proxy", "host": str(ph).lower(), "port": int(pp or 0)} if ph else {"kind": "direct", "host": "", "port": 0}
            except WebSocketProxyException:
                got = {"kind": "error", "host": "", "port": 0}
        ev.append({"ev": "decision",
                   "cfg": {"secure": secure, "host": host, "optHost": oh, "optPort": op,
                           "noProxyOpt": nplists[npo], "noProxyEnvLower": nplists[npl], "noProxyEnvUpper": nplists[npu],
                           "envLower": el.lower(), "envLowerPort": 8081, "envUpper": eu.lower(), "envUpperPort": 8082},
                   "got": got, "env": env})
    return ev


class ProxyPeer(Peer):
    def __init__(self, world, reply):
        self.world = world
        self.reply = reply
        self.buf = bytearray()
        self.stage = "connect"
        self.connect_req = None
        self.ws_req = None

    def on_bytes(self, data):
        self.buf += data
        if b"\r\n\r\n" not in self.buf:
            return
        req = bytes(self.buf)
        self.buf = bytearray()
        if self.stage == "connect":
            self.connect_req = req
            self.stage = "tunnel"
            r = self.reply
            if r == "eof":
                self.sock.feed_eof()
            elif r == "garbage":
                self.sock.feed(b"\x00\xffnot http\r\n\r\n")
            else:
                self.sock.feed(b"HTTP/1.1 %d Whatever\r\nVia: test\r\n\r\n" % r)
                if r != 200:
                    self.sock.feed_eof()
        else:
            self.ws_req = req
            key = [l.split(b":", 1)[1].strip() for l in req.split(b"\r\n") if l.lower().startswith(b"sec-websocket-key:")]
            self.sock.feed(build_head(dict(OKHEAD), key[0] if key else b"", None))


def tunnel_events(ctx, rng):
    import websocket
    from websocket._exceptions import WebSocketProxyException
    ev = []
    replies = [200, 201, 301, 403, 407, 500, "garbage", "eof"]
    auths = [None, ("user", None), ("user", "pass"), ("us er", "p:w"),
             # more than 57 bytes of "user:password": base64 output longer than one 76-character line
             ("alice.smith@corp.example.com", "token-" + "x" * 60), ("u" * 57, "p"), ("u" * 200, "p" * 200)]
    origins = [("origin.test", 0), ("origin.test", 8080), ("10.1.2.3", 81), ("origin.test", 443)]
    import logging
    for reply, auth, (oh, oport), via, tr, entry in itertools.product(replies, auths, origins, ("option", "env"), (False, True), ("WebSocket", "App")):
        if entry == "App" and (reply not in (403, 407) or tr or oport not in (0, 8080) or (auth and len(auth[0]) > 10)):
            continue          # the same through WebSocketApp.run_forever (refusing proxies only: the run ends with the CONNECT reply)
        if tr and (auth is None or reply not in (200, 407) or oport not in (0, 81)):
            continue          # debug tracing on: a sample (what is logged must not change what is sent)
        if auth and len(auth[0]) > 50 and (reply not in (200, 403) or oport not in (0, 8080)):
            continue
        peers = []

        def factory(world, sock, address, reply=reply):
            p = ProxyPeer(world, reply)
            peers.append(p)
            return p
        w = World(resolver={"*": ["10.8.8.8"]}, peer_factory=factory)
        if entry == "WebSocket" and not tr and oport == 81:
            w.write_cap = 16          # a transport that takes 16 bytes per write: CONNECT and the handshake still arrive whole
        url = "ws://%s%s/tun" % (oh, ":%d" % oport if oport else "")
        kw = {}
        env = {}
        if via == "option":
            kw = {"http_proxy_host": "proxy.test", "http_proxy_port": 3128}
            if auth:
                kw["http_proxy_auth"] = auth
        else:
            if auth and auth[1] is None:
                cred = auth[0] + "@"          # user name without password
            else:
                cred = "%s:%s@" % (auth[0].replace(" ", "%20").replace("@", "%40"), auth[1].replace(":", "%3A")) if auth else ""
            env = {"http_proxy": "http://%sproxy.test:3128" % cred}
        exc = None
        lg = logging.getLogger("websocket")
        lg_state = (lg.level, list(lg.handlers))
        if tr:
            websocket.enableTrace(True, handler=logging.NullHandler(), level="DEBUG")
        try:
            with clean_env(**env), w:
                if entry == "App":
                    errs = []
                    app = websocket.WebSocketApp(url, on_error=lambda a, e: errs.append(e))
                    try:
                        app.run_forever(**kw)
                    except Exception as e:      # noqa
                        errs.append(e)
                    exc = errs[0] if errs else None
                else:
                    ws = websocket.WebSocket()
                    ws.settimeout(2)
                    try:
                        ws.connect(url, **kw)
                    except Exception as e:
                        exc = e
        finally:
            if tr:
                websocket.enableTrace(False, handler=logging.NullHandler())
                lg.setLevel(lg_state[0])
                lg.handlers = lg_state[1]
        p = peers[0] if peers else None
        lines = (p.connect_req or b"").decode("latin-1").split("\r\n") if p else [""]
        creds = ""
        for l in lines[1:]:
            if l.lower().startswith("proxy-authorization:"):
                v = l.split(":", 1)[1].strip()
                if v.startswith("Basic "):
                    try:
                        creds = base64.b64decode(v[6:], validate=True).decode("latin-1")
                    except Exception:
                        creds = "<undecodable>"
                else:
                    creds = "<not basic>"
        want = "" if not auth else (auth[0] if auth[1] is None else "%s:%s" % auth)
        wsreq = (p.ws_req or b"").decode("latin-1").split("\r\n") if p else []
        wshost = ""
        for l in wsreq[1:]:
            if l.lower().startswith("host:"):
                wshost = l.split(":", 1)[1].strip()
        gets = [s for s in w.sockets if b"GET " in bytes(s.written)]
        res = [e for e in w.log if e["ev"] == "resolve"]
        eport = oport or 80
        ev.append({"ev": "tunnel", "host": oh, "port": eport, "auth": want, "reply": reply if isinstance(reply, int) else 0,
                   "line": lines[0], "lines": [l for l in lines[1:] if l], "creds": creds,
                   "proceeded": bool(gets), "wsSameSock": bool(gets) and p is not None and gets[0] is p.sock,
                   "wsHost": wshost, "expectWsHost": oh if eport in (80, 443) else "%s:%d" % (oh, eport),
                   "raisedProxy": isinstance(exc, WebSocketProxyException), "closed": bool(p and p.sock.closed),
                   "dialHost": res[0]["host"] if res else "", "dialPort": res[0]["port"] if res else 0,
                   "proxyHost": "proxy.test", "proxyPort": 3128, "via": via, "exc": type(exc).__name__ if exc else "", "trace": tr, "entry": entry})
    return ev


class HopProxyPeer(ProxyPeer):
    """CONNECT proxy whose tunnelled origin redirects a.test to b.test and accepts b.test"""

    def on_bytes(self, data):
        self.buf += data
        if b"\r\n\r\n" not in self.buf:
            return
        req = bytes(self.buf)
        self.buf = bytearray()
        if self.stage == "connect":
            self.connect_req = req
            self.stage = "tunnel"
            self.sock.feed(b"HTTP/1.1 200 OK\r\n\r\n")
        else:
            self.ws_req = req
            origin_reply(self.sock, req, b"a.test" in self.connect_req.split(b"\r\n")[0])


def origin_reply(sock, req, is_a):
    if is_a:
        sock.feed(b"HTTP/1.1 302 Found\r\nLocation: ws://b.test/moved\r\n\r\n")
    else:
        key = [l.split(b":", 1)[1].strip() for l in req.split(b"\r\n") if l.lower().startswith(b"sec-websocket-key:")]
        sock.feed(build_head(dict(OKHEAD), key[0] if key else b"", None))


class OriginPeer(Peer):
    def __init__(self, is_a):
        self.is_a = is_a
        self.buf = bytearray()

    def on_bytes(self, data):
        self.buf += data
        if b"\r\n\r\n" in self.buf:
            req = bytes(self.buf)
            self.buf = bytearray()
            origin_reply(self.sock, req, self.is_a)


def redirect_events(ctx, rng):
    """the proxy decision is made per target: a redirect from a proxied host to an exempt one (and the
    reverse) must be dialled according to the new host"""
    import websocket
    ev = []
    A = {"kind": "name", "labels": ["a", "test"]}
    Bh = {"kind": "name", "labels": ["b", "test"]}
    for exempt in ("a", "b"):
        for entry_kind in ("host", "dot", "star", "star_padded"):
            for via in ("option", "env"):
                for np_src in ("option", "no_proxy", "NO_PROXY"):
                    ex_host = A if exempt == "a" else Bh
                    entry = {"kind": "host", "labels": ex_host["labels"]} if entry_kind == "host" else {"kind": "dot", "labels": ex_host["labels"]}
                    if entry_kind.startswith("star"):
                        entry = {"kind": "star"}          # "*" exempts every hop
                    resolved = []

                    def factory(world, sock, address):
                        host = [e["host"] for e in world.log if e["ev"] == "resolve"][-1]
                        if host == "proxy.test":
                            return HopProxyPeer(world, 200)
                        return OriginPeer(host == "a.test")
                    w = World(resolver={"*": ["10.8.8.8"]}, peer_factory=factory)
                    kw, env = {}, {}
                    if via == "option":
                        kw = {"http_proxy_host": "proxy.test", "http_proxy_port": 3128}
                    else:
                        env["http_proxy"] = "http://proxy.test:3128"
                    if np_src == "option":
                        kw["http_no_proxy"] = [entry_text(entry)]
                    else:
                        env[np_src] = entry_text(entry)
                    exc = None
                    with clean_env(**env), w:
                        ws = websocket.WebSocket()
                        ws.settimeout(2)
                        try:
                            ws.connect("ws://a.test/start", **kw)
                        except Exception as e:
                            exc = e
                    res = [e for e in w.log if e["ev"] == "resolve"]
                    for hop, host in ((0, A), (1, Bh)):
                        if hop >= len(res):
                            got = {"kind": "none", "host": "", "port": 0}
                        elif res[hop]["host"] == "proxy.test":
                            got = {"kind": "proxy", "host": "proxy.test", "port": res[hop]["port"]}
                        else:
                            got = {"kind": "direct", "host": "", "port": 0}
                        lst = [entry]
                        ev.append({"ev": "decision",
                                   "cfg": {"secure": False, "host": host, "optHost": "proxy.test" if via == "option" else "", "optPort": 3128 if via == "option" else 0,
                                           "noProxyOpt": lst if np_src == "option" else [], "noProxyEnvLower": lst if np_src == "no_proxy" else [],
                                           "noProxyEnvUpper": lst if np_src == "NO_PROXY" else [],
                                           "envLower": "proxy.test" if via == "env" else "", "envLowerPort": 3128, "envUpper": "", "envUpperPort": 0},
                                   "got": got, "env": env, "hop": hop, "exc": type(exc).__name__ if exc else ""})
    return ev


def app_decision_events(ctx, rng):
    """the same decision through WebSocketApp.run_forever(): proxy and no_proxy given by option and / or environment in
    every mix (the attempt is refused at the first dial: what was dialled first is the decision)"""
    import websocket
    ev = []
    A = {"kind": "name", "labels": ["a", "test"]}
    entries = {"exempt_host": {"kind": "host", "labels": ["a", "test"]}, "exempt_dot": {"kind": "dot", "labels": ["test"]},
               "star": {"kind": "star"}, "other": {"kind": "host", "labels": ["b", "test"]}}
    for pvia in ("option", "env"):
        for npvia in ("option", "no_proxy", "NO_PROXY", "none"):
            for ename, entry in entries.items():
                if npvia == "none" and ename != "other":
                    continue
                w = World(resolver={"proxy.test": ["10.8.8.8"], "*": ["10.9.9.9"]}, outcomes={"10.8.8.8": "refused", "10.9.9.9": "refused"})
                kw, env = {}, {}
                if pvia == "option":
                    kw = {"http_proxy_host": "proxy.test", "http_proxy_port": 3128}
                else:
                    env["http_proxy"] = "http://proxy.test:3128"
                lst = [] if npvia == "none" else [entry]
                if npvia == "option":
                    kw["http_no_proxy"] = [entry_text(entry)]
                elif npvia != "none":
                    env[npvia] = entry_text(entry)
                errs = []
                with clean_env(**env), w:
                    app = websocket.WebSocketApp("ws://a.test/start", on_error=lambda a, e: errs.append(e))
                    try:
                        app.run_forever(**kw)
                    except Exception as e:      # noqa
                        errs.append(e)
                res = [e for e in w.log if e["ev"] == "resolve"]
                if not res:
                    got = {"kind": "none", "host": "", "port": 0}
                elif res[0]["host"] == "proxy.test":
                    got = {"kind": "proxy", "host": "proxy.test", "port": res[0]["port"]}
                else:
                    got = {"kind": "direct", "host": "", "port": 0}
                ev.append({"ev": "decision",
                           "cfg": {"secure": False, "host": A, "optHost": "proxy.test" if pvia == "option" else "", "optPort": 3128 if pvia == "option" else 0,
                                   "noProxyOpt": lst if npvia == "option" else [], "noProxyEnvLower": lst if npvia == "no_proxy" else [],
                                   "noProxyEnvUpper": lst if npvia == "NO_PROXY" else [],
                                   "envLower": "proxy.test" if pvia == "env" else "", "envLowerPort": 3128, "envUpper": "", "envUpperPort": 0},
                           "got": got, "env": env, "entry": "WebSocketApp", "exc": type(errs[0]).__name__ if errs else ""})
    return ev


def main(ctx):
    rng = random.Random(ctx.seed * 17 + 19)
    c18.run_target_mc(ctx, emit=False, tag="c19_targetmc")
    total = 0
    for tag, fn in (("exemptions", exempt_events), ("decisions", decision_events), ("tunnels", tunnel_events),
                    ("redirect_hops", redirect_events), ("app_decisions", app_decision_events)):
        ev = fn(ctx, rng)
        total += len(ev)
        for e, faults in c18.judge_batch(ctx, "C19", ev, tag):
            e2 = dict(e)
            if tag == "exemptions":
                what = "host %s with no_proxy %s (%s): %s, library answered %s" % (
                    host_text(e["host"]), [entry_text(x) for x in e["list"]], e["source"], faults, e["got"])
            elif tag in ("decisions", "redirect_hops", "app_decisions"):
                what = "decision for cfg %s env %s: %s, got %s" % (json.dumps(e["cfg"]), e["env"], faults, e["got"])
            else:
                what = "tunnel reply=%s auth=%r origin=%s:%s via %s: %s; CONNECT=%r creds=%r exc=%s" % (
                    e["reply"], e["auth"], e["host"], e["port"], e["via"], faults, e["line"], e["creds"], e["exc"])
            ctx.deviation(None, what, {"event": e2, "faults": faults})
        for e in ev:
            ctx.case((tag, json.dumps(e, sort_keys=True, default=repr)))
        ctx.sample(ev[len(ev) // 2])
        ctx.notes[tag] = len(ev)
    # negative control: flip one recorded answer
    from websocket._url import _is_no_proxy_host
    neg = [{"ev": "exempt", "host": {"kind": "name", "labels": ["ba", "b"]}, "list": [{"kind": "dot", "labels": ["a", "b"]}],
            "got": True, "source": "option"}]
    bad = c18.judge_batch(ctx, "C19", neg, "neg")
    ctx.traces -= 1
    if [sorted(f) for _, f in bad] != [["C19.host_exempted_without_matching_entry"]]:
        ctx.machinery_error = "C19 negative control not rejected: %s" % bad
    ctx.notes["negative_controls"] = [sorted(f) for _, f in bad]
    ctx.trusted += ["TLC 1.8", "vf/networld.py", "rendering of label sequences / octets to text"]
    ctx.assumptions += ["CIDR entries canonical; IPv4 hosts dotted quads; names lower-case"]


def replay(ctx, path):
    c = json.load(open(path))["case"]
    print(json.dumps(c, indent=1)[:3000])
    return 0
