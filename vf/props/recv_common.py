def run_for(ctx, pid):
    pass
