"""Receive-side properties (C02-C07, frame phase of C17): scenario families, execution against
the real library (vf/recvworld.py), validation of the recorded traces by TLC (TraceRecv), and
the model-checking run of the receive machine itself (RecvMC)."""
import concurrent.futures as cf
import itertools
import os
import random

from .. import tlc, wire
from ..recvworld import run_scenario

T, B, C, CL, PI, PO = 1, 2, 0, 8, 9, 10
MSG_APIS = [["recv_data_frame", False], ["recv_data_frame", True], ["recv_data", False], ["recv", False]]
ALL_APIS = MSG_APIS + [["recv_frame", False]]


# ---------------------------------------------------------------------------------------------
# TLC: model checking of the machine
# ---------------------------------------------------------------------------------------------
MC_FRAMES = """FrameSetV == { ServerFrame(1,0,1,<<97>>), ServerFrame(0,0,1,<<206>>), ServerFrame(1,0,0,<<177>>),
  ServerFrame(0,0,0,<<>>), ServerFrame(1,0,2,<<255>>), ServerFrame(1,0,9,<<1>>), ServerFrame(1,0,10,<<>>),
  ServerFrame(1,0,8,<<3,232>>), ServerFrame(1,4,1,<<97>>), ServerFrame(1,0,3,<<>>), ServerFrame(0,0,9,<<>>),
  ServerFrame(1,0,1,<<206>>), ServerFrame(0,0,10,<<>>), ServerFrame(1,0,8,<<3>>) }
"""
MC_FRAMES_SMALL = """FrameSetV == { ServerFrame(0,0,1,<<206>>), ServerFrame(1,0,0,<<177>>), ServerFrame(0,0,0,<<>>),
  ServerFrame(1,0,9,<<1>>), ServerFrame(1,0,2,<<255>>), ServerFrame(1,0,8,<<3,232>>) }
"""
MC_INVS = ["StepAccepts", "SegIndep", "Conservation", "NoLoss", "ReassemblyExact", "RejectIffIllegal",
           "PongsMirrorPings", "CloseReplyOnce"]


def mc_cfg(maxframes, maxto, fire="{FALSE, TRUE}", skip="{FALSE}", invs=MC_INVS, props=("PongBeforeRead",)):
    return ("INIT Init\nNEXT Next\nCONSTANTS\n FrameSet <- FrameSetV\n MaxFrames = %d\n Apis <- ApisV\n"
            " FireConts = %s\n SkipUtf8s = %s\n MaxTimeouts = %d\n Tails <- TailsV\n" % (maxframes, fire, skip, maxto)
            + "".join("INVARIANT %s\n" % i for i in invs) + "".join("PROPERTY %s\n" % p for p in props))


def mc_module(name, frames, apis=None, tails="{ <<>>, <<129>> }"):
    apis = apis or '{ <<"recv_data_frame", TRUE>>, <<"recv_data_frame", FALSE>>, <<"recv", FALSE>>, <<"recv_frame", FALSE>> }'
    return {name: "---- MODULE %s ----\nEXTENDS RecvMC\n%sApisV == %s\nTailsV == %s\n====\n" % (name, frames, apis, tails)}


def model_check(ctx, pid):
    """Exhaustive TLC runs of RecvMC; the same runs serve C02-C07 (each check re-runs them: the
    verdict of a check never depends on another check having been run)."""
    runs = []
    if ctx.tier == "quick":
        runs.append(("RecvMC_a", mc_module("RecvMC_a", MC_FRAMES), mc_cfg(2, 1), "2 frames from a 14-frame alphabet, all cuts, <=1 timeout, 4 APIs, fireCont on/off"))
        runs.append(("RecvMC_b", mc_module("RecvMC_b", MC_FRAMES_SMALL, tails="{ <<>> }"), mc_cfg(3, 0, skip="{FALSE, TRUE}"),
                     "3 frames from a 6-frame alphabet, all cuts, no timeouts, utf8 validation on/off"))
    else:
        runs.append(("RecvMC_a", mc_module("RecvMC_a", MC_FRAMES), mc_cfg(2, 2, skip="{FALSE, TRUE}"), "2 frames/14-frame alphabet, <=2 timeouts, all flags"))
        runs.append(("RecvMC_b", mc_module("RecvMC_b", MC_FRAMES), mc_cfg(3, 0), "3 frames/14-frame alphabet, all cuts"))
        runs.append(("RecvMC_c", mc_module("RecvMC_c", MC_FRAMES_SMALL, tails="{ <<>> }"), mc_cfg(4, 1, skip="{FALSE, TRUE}"), "4 frames/6-frame alphabet, <=1 timeout"))
    for name, gen, cfg, what in runs:
        r = tlc.run(name, cfg, "%s_%s" % (pid.lower(), name), gen=gen, timeout=3000, coverage=False)
        ctx.add_tlc(r, "RecvMC: " + what)
        if r.violated:
            ctx.machinery_error = "specification self-check failed: RecvMC %s violated %s" % (name, r.violated)
    # vacuity guard: the witnesses must be reachable (TLC must violate them)
    wit = ["W_Reassembled", "W_Protocol", "W_Pong"]
    missing = tlc.witnesses("RecvMC_w", mc_cfg(2, 0, invs=[], props=()), wit, "%s_RecvMC_w" % pid.lower(),
                            gen=mc_module("RecvMC_w", MC_FRAMES))
    ctx.notes["witnesses_reached"] = [w for w in wit if w not in missing]
    if missing:
        ctx.machinery_error = "vacuity guard: witnesses not reachable in RecvMC: %s" % missing


# ---------------------------------------------------------------------------------------------
# executing scenarios and validating the traces
# ---------------------------------------------------------------------------------------------
def _run_chunk(scs):
    out = []
    for sc in scs:
        try:
            out.append(run_scenario(sc))
        except Exception as e:      # harness-level failure: surfaces as machinery error
            out.append([{"ev": "begin", "tid": sc["tid"], "i": 0, "stream": [], "fireCont": False, "skipUtf8": False},
                        {"ev": "harness_error", "tid": sc["tid"], "i": 1, "what": repr(e)[:200]},
                        {"ev": "end", "tid": sc["tid"], "i": 2}])
    return out


def execute(scenarios, procs=12):
    if len(scenarios) < 200:
        return _run_chunk(scenarios)
    chunks = [scenarios[i::procs] for i in range(procs)]
    res = {}
    with cf.ProcessPoolExecutor(procs) as ex:
        for traces in ex.map(_run_chunk, chunks):
            for t in traces:
                res[t[0]["tid"]] = t
    return [res[sc["tid"]] for sc in scenarios]


def _tlc_shard(args):
    k, path, tag = args
    r = tlc.run("TraceRecv", "SPECIFICATION TSpec\nINVARIANT TConservation\nINVARIANT TPongs\nINVARIANT Report\n",
                tag, env={"TRACE_FILE": path}, workers=1, timeout=3000, heap="3g")
    return k, r


def validate(ctx, pid, scenarios, tag, shards=12):
    """Returns list of (scenario, bad record) for rejected traces; accounts everything in ctx."""
    traces = execute(scenarios)
    nshards = max(1, min(shards, len(traces) // 40))
    d = tlc.scratch("%s_%s_traces" % (pid.lower(), tag))
    jobs = []
    for k in range(nshards):
        path = os.path.join(d, "t%d.ndjson" % k)
        with open(path, "w") as f:
            import json
            for t in traces[k::nshards]:
                for e in t:
                    f.write(json.dumps(e, separators=(",", ":")) + "\n")
        jobs.append((k, path, "%s_%s_v%d" % (pid.lower(), tag, k)))
    bad = []
    accepted = 0
    with cf.ThreadPoolExecutor(nshards) as ex:
        for k, r in ex.map(_tlc_shard, jobs):
            ctx.add_tlc(r, "TraceRecv shard %d of %s" % (k, tag))
            if r.violated:
                ctx.machinery_error = "TraceRecv invariant %s violated while validating %s" % (r.violated, tag)
            v = tlc.emitted(r, "VERDICT")
            if not v:
                raise tlc.TlcError("TraceRecv produced no verdict for %s shard %d" % (tag, k))
            bad += v[0]["bad"]
            accepted += v[0]["accepted"]
    by_tid = {sc["tid"]: sc for sc in scenarios}
    tr_by_tid = {t[0]["tid"]: t for t in traces}
    ctx.traces += len(traces)
    out = []
    for b in bad:
        sc = by_tid[b["tid"]]
        out.append((sc, b, tr_by_tid[b["tid"]]))
    for sc in scenarios:
        ctx.case((tag, bytes(sc["stream"]), repr(sc.get("cuts")), repr(sc.get("timeouts")), repr(sc["calls"]),
                  sc.get("fireCont"), sc.get("skipUtf8"), sc.get("end")), nontrivial=len(sc["stream"]) > 0)
    if traces:
        t = traces[len(traces) // 2]
        ctx.sample({"family": tag, "trace_excerpt": [{k: v for k, v in e.items() if k != "tid"} for e in t[:8]]})
    ctx.notes.setdefault("families", {})[tag] = {"traces": len(traces), "accepted": accepted, "rejected": len(bad)}
    return out


# Clauses are named after the property whose wording they quote, but one deviation can break several
# properties: a legal fragmented text message that is rejected is "not delivered" (C04), "a legal sequence
# not accepted" (C05) and "well-formed text rejected" (C06).  In the *focused* families of property X the
# clauses listed here are X's too (in the shared common pool only X.* clauses are).
CROSS = {
    "C02": {"C05.legal_frame_rejected", "C17.undocumented_exception", "C02.returned_without_a_complete_frame",
            "C06.well_formed_text_rejected",
            "C03.bytes_consumed_outside_the_calls",
            "C04.reassembled_message_differs", "C03.outcome_delayed_by_read", "C03.spurious_exception"},
    "C03": set(),      # judged by the group rule below: the same stream must behave the same under every cutting
    "C04": {"C06.well_formed_text_rejected", "C05.legal_frame_rejected", "C02.decoded_result_differs", "C17.undocumented_exception",
            "C02.returned_without_a_complete_frame", "C03.spurious_exception", "C06.ill_formed_text_delivered"},
    "C05": {"C06.well_formed_text_rejected", "C06.ill_formed_text_delivered", "C17.undocumented_exception",
            "C06.ill_formed_close_reason_accepted"},
    "C06": {"C17.undocumented_exception", "C05.legal_frame_rejected"},
    "C07": {"C05.legal_frame_rejected", "C17.undocumented_exception", "C01.reply_frame_malformed", "C01.reply_not_one_whole_frame",
            "C03.outcome_delayed_by_read"},
    "C17": {"C03.spurious_exception"},
}


def judge(ctx, pid, rejected, focused=True):
    """Turns rejected traces into verdicts for property `pid`."""
    for sc, b, trace in rejected:
        why = b["why"]
        owner = why.split(".")[0]
        if focused and owner != "harness" and why in CROSS.get(pid, ()):
            owner = pid
        rep = {"scenario": _jsonable(sc), "rejected_at": b["at"], "event": b["ev"], "clause": why,
               "trace": [{k: v for k, v in e.items() if k != "tid"} for e in trace[max(0, b["at"] - 6):b["at"] + 2]]}
        if owner == "harness":
            ctx.machinery_error = "harness inconsistency in trace %s: %s" % (sc["tid"], why)
        elif owner == pid:
            ctx.deviation(None, "trace %s rejected at event %d (%s): clause %s; stream=%s cfg=fireCont:%s skipUtf8:%s api=%s"
                          % (sc["tid"], b["at"], b["ev"], why, bytes(sc["stream"])[:40].hex(), sc.get("fireCont"),
                             sc.get("skipUtf8"), sc["calls"][0][0]), rep)
        else:
            ctx.remark("clause %s (owned by %s) failed in a %s scenario; judged by ./check %s" % (why, owner, pid, owner))


def group_rule(ctx, scs, rejected):
    """C03 as literally stated: all cuttings / timeout placements of one stream (same API and flags) must give
    the same result.  A stream for which some deliveries are accepted by the machine and others are not
    depends on segmentation, whatever clause the rejected ones break."""
    groups = {}
    for sc in scs:
        key = (bytes(sc["stream"]), sc["calls"][0][0], sc["calls"][0][1], sc.get("fireCont"), sc.get("skipUtf8"))
        groups.setdefault(key, [0, []])[0] += 1
    for sc, b, trace in rejected:
        if b["why"].split(".")[0] in ("harness",):
            continue
        key = (bytes(sc["stream"]), sc["calls"][0][0], sc["calls"][0][1], sc.get("fireCont"), sc.get("skipUtf8"))
        groups[key][1].append((sc, b, trace))
    for key, (n, rej) in groups.items():
        if rej and len(rej) < n:
            sc, b, trace = rej[0]
            ctx.deviation(None, "stream %s (%s): %d of %d deliveries behave differently from the others, e.g. cuts=%s timeouts=%s end=%s breaks %s at event %d"
                          % (key[0][:24].hex(), key[1], len(rej), n, str(sc.get("cuts"))[:60], sc.get("timeouts"), sc.get("end"), b["why"], b["at"]),
                          {"scenario": _jsonable(sc), "rejected_at": b["at"], "clause": "C03.result_depends_on_segmentation (" + b["why"] + ")",
                           "trace": [{k: v for k, v in e.items() if k != "tid"} for e in trace[max(0, b["at"] - 6):b["at"] + 2]]})


def _jsonable(sc):
    o = dict(sc)
    o["stream"] = list(sc["stream"])
    if o.get("prior_stream") is not None:
        o["prior_stream"] = list(o["prior_stream"])
    return o


# ---------------------------------------------------------------------------------------------
# scenario families
# ---------------------------------------------------------------------------------------------
class Fam:
    def __init__(self, prefix):
        self.prefix = prefix
        self.n = 0
        self.out = []

    def add(self, stream, calls, cuts=(), timeouts=(), end="eof", fireCont=False, skipUtf8=False,
            max_calls=None, via_connect=False, nonblocking=False, prior=None, head_chunk=None, bad_connect=False):
        self.n += 1
        # configuration beyond the receive properties' own flags: trace logging on (every received frame is
        # re-formatted for the log) and the lock-free single-thread configuration - neither may change a result
        extra = {"trace": self.n % 5 == 0, "nolock": self.n % 7 == 0}
        if self.n % 6 == 1:
            extra["chunk_type"] = "bytearray" if self.n % 12 == 1 else "memoryview"
        if prior is not None:
            extra["prior_stream"] = bytes(prior)
        if head_chunk:
            extra["head_chunk"] = head_chunk
        if bad_connect:
            extra["bad_connect_after_timeout"] = True
        nfr = len(wire_frames_guess(stream))
        self.out.append(dict(tid="%s%d" % (self.prefix, self.n), stream=bytes(stream), calls=[list(c) for c in calls],
                             cuts=cuts if cuts == "every" else sorted(cuts), timeouts=sorted(timeouts), end=end,
                             fireCont=fireCont, skipUtf8=skipUtf8,
                             max_calls=max_calls or (nfr + len(timeouts) + 4), via_connect=via_connect, nonblocking=nonblocking, **extra))


def wire_frames_guess(stream):
    """number of frames (best effort) to size the call budget"""
    try:
        return wire.decode_client_frames(bytes(stream))
    except Exception:
        return [None] * 6


def header_boundaries(frames):
    """cut positions at every header / extension / key / payload boundary of a list of frame byte strings"""
    cuts = set()
    p = 0
    for fr in frames:
        l7 = fr[1] & 0x7F
        ext = 2 if l7 == 126 else 8 if l7 == 127 else 0
        mk = 4 if fr[1] & 0x80 else 0
        for c in (1, 2, 2 + ext, 2 + ext + mk, 2 + ext + mk + 1):
            if 0 < c < len(fr):
                cuts.add(p + c)
        p += len(fr)
        cuts.add(p)
    cuts.discard(p)
    return cuts


def fam_decode(rng, tier):
    """C02: every first header byte x mask x length class, extended forms, non-minimal encodings,
    streams of several frames back to back; whole / byte-wise / boundary cuts."""
    f = Fam("dec")
    small = []
    for b1 in range(256):
        op, rsv, fin = b1 & 15, (b1 >> 4) & 7, b1 >> 7
        for masked in (0, 1):
            for n in (0, 1, 125):
                if tier == "quick" and n == 125 and (b1 % 4) and op not in (8, 9, 10):
                    continue
                pl = bytes(rng.randrange(256) for _ in range(n))
                if op == 8 and n >= 2:
                    pl = bytes([3, 232]) + bytes(rng.randrange(32, 127) for _ in range(n - 2))
                key = bytes(rng.randrange(256) for _ in range(4)) if masked else None
                small.append(wire.sframe(op, pl, fin, rsv, key))
    rng.shuffle(small)
    i = 0
    while i < len(small):
        k = rng.randrange(1, 5)
        frames = small[i:i + k]
        i += k
        stream = b"".join(frames)
        mode = rng.randrange(3)
        cuts = () if mode == 0 else "every" if (mode == 1 and len(stream) < 80) else header_boundaries(frames)
        api = rng.choice([["recv_frame", False]] * 3 + [["recv_data_frame", True]])
        f.add(stream, [api], cuts=cuts, max_calls=k + 3, via_connect=(i % 9 == 0))
        if i % 4 == 1 and len(stream) > 2:
            # a non-blocking transport on which the stream arrives in two pieces, the caller polling in between
            p = rng.randrange(1, len(stream))
            f.add(stream, [api], cuts=[p], timeouts=[p], max_calls=k + 4, nonblocking=True)
        if i % 10 == 3:
            # a text message that is refused as ill-formed, the caller reads on: the frames after it are decoded as they are
            bad = rng.choice([b"\xff", b"\xc3", b"ab\xed\xa0\x80", b"\xf8\x88\x80\x80\x80"])
            tail = wire.sframe(B, b"\x01\x02") + wire.sframe(T, b"ok") + wire.sframe(T, b"x", 0) + wire.sframe(C, b"y", 1)
            for api2 in (["recv_data_frame", True], ["recv_data", False], ["recv", False]):
                f.add(wire.sframe(T, bad) + tail, [api2], max_calls=6)
                f.add(wire.sframe(T, b"a", 0) + wire.sframe(C, bad, 1) + tail, [api2], max_calls=6)
        if i % 12 == 0:
            # the same object has been through an earlier connection that ended inside a frame / inside a message
            whole = wire.sframe(B, b"abcdef")
            prior = rng.choice([whole[:1], whole[:2], whole[:5], wire.sframe(T, b"a", 0), wire.sframe(B, b"x" * 200)[:3],
                                wire.sframe(T, b"done") + whole[:4]])
            f.add(stream, [api], cuts=cuts, max_calls=k + 3, prior=prior)
    # extended length forms and non-minimal encodings
    ext = [(126, None), (127, None), (300, None), (65535, None), (5, 2), (125, 2), (0, 2), (5, 8), (300, 8), (0, 8)]
    big = [(65536, None), (65537, None), (70000, None)]
    for n, form in ext + (big if tier == "thorough" else big[:1]):
        for masked in (0, 1):
            for op in ((T, B) if n < 60000 else (B,)):
                if tier == "quick" and n >= 60000 and masked:
                    continue
                pl = bytes(rng.randrange(256) for _ in range(n)) if op == B else bytes(rng.randrange(32, 127) for _ in range(n))
                key = bytes(rng.randrange(256) for _ in range(4)) if masked else None
                fr = wire.sframe(op, pl, 1, 0, key, length_form=form)
                follow = wire.sframe(T, b"next")
                for cuts in ((), header_boundaries([fr, follow])):
                    f.add(fr + follow, [rng.choice(ALL_APIS)], cuts=cuts, max_calls=4)
                if n < 60000:
                    # the read is interrupted after the first two header bytes / inside the extended length / the key:
                    # the retried call must decode the same frame
                    hl = len(fr) - n
                    for p in range(1, hl + 1):
                        f.add(fr + follow, [rng.choice(ALL_APIS)], cuts=tuple(range(1, hl + 2)), timeouts=[p], max_calls=5)
                        # the same on a non-blocking transport: "nothing there yet" (would-block) instead of a timeout
                        f.add(fr + follow, [rng.choice(ALL_APIS)], cuts=tuple(range(1, hl + 2)), timeouts=[p], max_calls=5, nonblocking=True)
    return f.out


def compositions(n, maxparts):
    """all ways to write n as an ordered sum of 1..maxparts non-negative parts (empty parts allowed)"""
    out = []
    for k in range(1, maxparts + 1):
        for cutpoints in itertools.combinations_with_replacement(range(n + 1), k - 1):
            pts = (0,) + cutpoints + (n,)
            out.append([pts[i + 1] - pts[i] for i in range(k)])
    return out


TEXTS = [b"", b"a", b"ab", "é".encode(), "aé".encode(), "€".encode(), "\U0001f600".encode(), b"abcd", "éa€".encode()[:4],
         "\ufeff".encode(), "\ufeffz".encode()]        # (a leading U+FEFF is part of the message like any other character)


def fam_fragments(rng, tier, apis=None):
    """C04: all ways of cutting a message into 1..4 fragments (empty ones included), text and binary,
    pings/pongs in every gap, two messages in a row, per-fragment delivery and validation on/off."""
    f = Fam("frag")
    apis = apis or MSG_APIS
    msgs = [m for m in TEXTS if len(m) <= 4]
    for m in msgs:
        for parts in compositions(len(m), 4 if tier == "thorough" or len(m) <= 3 else 3):
            for op in (T, B):
                frames = []
                p = 0
                for i, ln in enumerate(parts):
                    frames.append(wire.sframe(op if i == 0 else C, m[p:p + ln], fin=1 if i == len(parts) - 1 else 0))
                    p += ln
                gaps = len(frames) + 1
                # controls in gaps: none, a ping in one gap, ping+pong in one gap, pings in all gaps
                variants = [dict()]
                g = rng.randrange(gaps)
                variants.append({g: [wire.sframe(PI, b"p%d" % g)]})
                if tier == "thorough" or rng.random() < 0.3:
                    variants.append({rng.randrange(gaps): [wire.sframe(PI, b""), wire.sframe(PO, b"x")]})
                    variants.append({k: [wire.sframe(PI, bytes([k]))] for k in range(gaps)})
                for var in variants:
                    seq = []
                    for i in range(gaps):
                        seq += var.get(i, [])
                        if i < len(frames):
                            seq.append(frames[i])
                    second = wire.sframe(rng.choice([T, B]), b"zz")
                    stream = b"".join(seq) + second
                    for fire in (False, True):
                        for skip in ((False, True) if (tier == "thorough" or rng.random() < 0.25) else (False,)):
                            api = rng.choice(apis)
                            cuts = rng.choice([(), "every", header_boundaries(seq + [second])])
                            f.add(stream, [api], cuts=cuts, fireCont=fire, skipUtf8=skip, max_calls=len(seq) + 4)
    # very many control frames between two fragments, very many (empty) fragments: "any number"
    pongs = wire.sframe(PO, b"") * 1200
    f.add(wire.sframe(T, b"he", 0) + pongs + wire.sframe(C, b"llo", 1) + wire.sframe(B, b"x"), [["recv_data", False]], max_calls=4)
    pings = b"".join(wire.sframe(PI, bytes([i % 251])) for i in range(300))
    f.add(wire.sframe(B, b"\x01", 0) + pings + wire.sframe(C, b"\x02", 1), [["recv", False]], max_calls=4)
    f.add(wire.sframe(T, b"a", 0) + wire.sframe(C, b"", 0) * 1100 + wire.sframe(C, b"b", 1), [["recv_data_frame", False]], max_calls=3)
    # a receive timeout between (and inside) the fragments of a message: the retried call finishes the same message
    for parts in ([b"ab", b"cd"], [b"a", b"", b"b"], ["é".encode()[:1], "é".encode()[1:]]):
        for op in (T, B):
            seq = [wire.sframe(op if i == 0 else C, p, fin=1 if i == len(parts) - 1 else 0) for i, p in enumerate(parts)]
            stream = b"".join(seq) + wire.sframe(T, b"next")
            bounds = [sum(len(x) for x in seq[:i + 1]) for i in range(len(seq))]
            for p in sorted(set(bounds + [b + 1 for b in bounds[:-1]] + [1])):
                for fire in (False, True):
                    f.add(stream, [rng.choice(apis)], cuts=header_boundaries(seq), timeouts=[p], fireCont=fire, max_calls=len(seq) + 4)
    # longer messages, many fragments (thorough: up to 64 fragments)
    for _ in range(40 if tier == "quick" else 400):
        nfr = rng.randrange(2, 9 if tier == "quick" else 65)
        text = "".join(rng.choice("aé€\U0001f600z") for _ in range(rng.randrange(1, 12))).encode()
        pts = sorted(rng.randrange(len(text) + 1) for _ in range(nfr - 1))
        pts = [0] + pts + [len(text)]
        op = rng.choice([T, B])
        seq = []
        for i in range(nfr):
            seq.append(wire.sframe(op if i == 0 else C, text[pts[i]:pts[i + 1]], fin=1 if i == nfr - 1 else 0))
            if rng.random() < 0.3:
                seq.append(wire.sframe(rng.choice([PI, PO]), bytes(rng.randrange(256) for _ in range(rng.randrange(4)))))
        nmsg = rng.randrange(0, 3)
        for _ in range(nmsg):
            seq.append(wire.sframe(rng.choice([T, B]), bytes(rng.randrange(97, 123) for _ in range(rng.randrange(5)))))
        stream = b"".join(seq)
        f.add(stream, [rng.choice(apis)], cuts=rng.choice([(), header_boundaries(seq)]), fireCont=rng.random() < 0.4,
              skipUtf8=rng.random() < 0.3, max_calls=len(seq) + 4)
    return f.out


HIST_ALPHABET = {
    "T0": lambda: wire.sframe(T, b"a", 0), "T1": lambda: wire.sframe(T, b"b", 1),
    "B0": lambda: wire.sframe(B, b"\x01", 0), "B1": lambda: wire.sframe(B, b"\x02", 1),
    "C0": lambda: wire.sframe(C, b"c", 0), "C1": lambda: wire.sframe(C, b"d", 1),
    "PI": lambda: wire.sframe(PI, b"i"), "PO": lambda: wire.sframe(PO, b"o"),
    "CL": lambda: wire.sframe(CL, b"\x03\xe8"),
}


def fam_legality(rng, tier):
    """C05: (i) all 256 first bytes x payload-length classes; close bodies; (ii) all sequencing
    histories up to a bound over {T0,T1,B0,B1,C0,C1,ping,pong,close}."""
    f = Fam("leg")
    for b1 in range(256):
        op, rsv, fin = b1 & 15, (b1 >> 4) & 7, b1 >> 7
        for n in (0, 1, 2, 125, 126):
            if op == 8 and n >= 2:
                pl = bytes([3, 232]) + b"r" * (n - 2)
            elif op == 1:
                pl = b"t" * n
            else:
                pl = bytes(rng.randrange(256) for _ in range(n))
            fr = wire.sframe(op, pl, fin, rsv)
            pre = wire.sframe(T, b"m", 0) if op == 0 else b""     # a continuation needs a message in progress
            apis = ALL_APIS if (tier == "thorough" or n in (0, 126)) else [rng.choice(ALL_APIS)]
            for api in apis:
                if api[0] == "recv_frame" and pre:
                    continue
                f.add(pre + fr + wire.sframe(B, b"after"), [api], max_calls=4)
    # close bodies: length 1, reasons of every UTF-8 validity class, codes at the edges
    reasons = [b"", b"bye", "é".encode(), b"\xc3", b"\xe2\x82", b"\xed\xa0\x80", b"\xc0\x80", b"\xf4\x90\x80\x80", b"ok\xff"]
    codes = [0, 999, 1000, 1001, 1003, 1004, 1005, 1006, 1007, 1011, 1014, 1015, 1016, 2999, 3000, 4999, 5000, 65535]
    for code in codes:
        for r in reasons:
            for skip in (False, True):
                f.add(wire.sframe(CL, bytes([code >> 8, code & 255]) + r), [rng.choice(ALL_APIS)], skipUtf8=skip, max_calls=2)
    f.add(wire.sframe(CL, b"\x03"), [["recv", False]], max_calls=2)
    f.add(wire.sframe(CL, b"\x03"), [["recv_frame", False]], max_calls=2)
    f.add(wire.sframe(CL, bytes([3, 232]) + b"r" * 124, length_form=2), [["recv_data_frame", True]], max_calls=2)
    # sequencing histories
    names = sorted(HIST_ALPHABET)
    maxlen = 3 if tier == "quick" else 4
    for k in range(1, maxlen + 1):
        for h in itertools.product(names, repeat=k):
            if "CL" in h[:-1]:
                continue
            stream = b"".join(HIST_ALPHABET[x]() for x in h)
            f.add(stream, [rng.choice(MSG_APIS)], max_calls=k + 2, fireCont=rng.random() < 0.2)
    for _ in range(300 if tier == "quick" else 4000):
        k = maxlen + 1 + rng.randrange(2)
        h = [rng.choice(names[:-0 or None]) for _ in range(k)]
        if "CL" in h[:-1]:
            continue
        f.add(b"".join(HIST_ALPHABET[x]() for x in h), [rng.choice(MSG_APIS)], max_calls=k + 2)
    return f.out


def fam_utf8(rng, tier):
    """C06 at message level: code points split across fragments, ill-formed text and close reasons,
    validation off -> bytes pass through unchanged."""
    f = Fam("u8")
    from .c06 import BAD, SEEDS
    good = [s.encode() for s in SEEDS if s]
    for txt in good + BAD + [g + b for g in good[:4] for b in BAD[:8]]:
        cutsets = [[]] + [[k] for k in range(1, len(txt))] + ([[1, 2]] if len(txt) > 2 else [])
        if txt:
            # empty fragments: first, last, and between two halves of a character
            cutsets += [[0], [len(txt)], [1, 1]] if len(txt) > 1 else [[0], [len(txt)]]
        for cs in cutsets:
            pts = [0] + cs + [len(txt)]
            seq = [wire.sframe(T if i == 0 else C, txt[pts[i]:pts[i + 1]], fin=1 if i == len(pts) - 2 else 0)
                   for i in range(len(pts) - 1)]
            for skip, fire in ((False, False), (True, False), (False, True)):
                for api in (MSG_APIS if tier == "thorough" else [rng.choice(MSG_APIS)]):
                    f.add(b"".join(seq) + wire.sframe(B, b"\xff"), [api], skipUtf8=skip, fireCont=fire, max_calls=len(seq) + 3)
        # a close reason of the maximal length (123 bytes) that ends with these bytes
        if 0 < len(txt) <= 8:
            for skip in (False, True):
                f.add(wire.sframe(CL, b"\x03\xe8" + b"r" * (123 - len(txt)) + txt), [rng.choice(ALL_APIS)], skipUtf8=skip, max_calls=2)
        # the same bytes as a binary message are never validated
        f.add(wire.sframe(B, txt), [rng.choice(MSG_APIS)], max_calls=2)
        # and as a close reason
        if len(txt) <= 123:
            for skip in (False, True):
                f.add(wire.sframe(CL, b"\x03\xe8" + txt), [rng.choice(ALL_APIS)], skipUtf8=skip, max_calls=2)
    return f.out


def fam_pings(rng, tier):
    """C07: every ping payload length 0..125 (126 is illegal), pings before / between / inside
    fragmented messages, any number of them, with and without control-frame reporting."""
    f = Fam("ping")
    for n in range(0, 127):
        pl = bytes(rng.randrange(256) for _ in range(n))
        for control in (False, True):
            fr = wire.sframe(PI, pl)
            f.add(fr + wire.sframe(T, b"x"), [["recv_data_frame", control]], max_calls=3,
                  cuts=rng.choice([(), header_boundaries([fr])]))
        f.add(wire.sframe(PI, pl) + wire.sframe(T, b"x"), [rng.choice([["recv", False], ["recv_data", False], ["recv_data", True]])], max_calls=3)
    # more consecutive pings than any recursion would survive, read by one call that does not report control frames
    many = b"".join(wire.sframe(PI, b"ka-%d" % i) for i in range(1500))
    for api in (["recv", False], ["recv_data", False], ["recv_data_frame", False]):
        f.add(many + wire.sframe(T, b"end"), [api], max_calls=3)
    f.add(wire.sframe(T, b"he", 0) + many + wire.sframe(C, b"llo", 1), [["recv_data", False]], max_calls=3)
    for _ in range(150 if tier == "quick" else 2500):
        seq = []
        nmsg = rng.randrange(1, 4)
        for _m in range(nmsg):
            nfr = rng.randrange(1, 4)
            op = rng.choice([T, B])
            for i in range(nfr):
                for _p in range(rng.choice([0, 0, 1, 1, 2, 3]) if tier == "quick" else rng.randrange(0, 7)):
                    seq.append(wire.sframe(rng.choice([PI, PI, PO]), bytes(rng.randrange(256) for _ in range(rng.choice([0, 1, 2, 125])))))
                seq.append(wire.sframe(op if i == 0 else C, bytes(rng.randrange(97, 123) for _ in range(rng.randrange(3))),
                                       fin=1 if i == nfr - 1 else 0))
        if rng.random() < 0.5:
            seq.append(wire.sframe(PI, b"tail"))
        api = rng.choice(MSG_APIS + [["recv_data", True]])
        f.add(b"".join(seq), [api], cuts=rng.choice([(), "every", header_boundaries(seq)]),
              timeouts=[rng.randrange(len(b"".join(seq)))] if rng.random() < 0.3 else (),
              end=rng.choice(["eof", "timeout"]), fireCont=rng.random() < 0.25, max_calls=len(seq) + 5)
    return f.out


def fam_segmentation(rng, tier):
    """C03: exhaustive partitions of short streams, timeouts at every position (and pairs), long
    streams byte by byte and with random cuts, head and frames in one flow (via the real connect)."""
    f = Fam("seg")
    shorts = [
        [wire.sframe(T, b"hi")],
        [wire.sframe(T, b"a", 0), wire.sframe(C, b"b", 1)],
        [wire.sframe(PI, b"p"), wire.sframe(B, b"\x00")],
        [wire.sframe(T, "é".encode()[:1], 0), wire.sframe(PI, b""), wire.sframe(C, "é".encode()[1:], 1)],
        [wire.sframe(PO, b""), wire.sframe(T, b"x"), wire.sframe(CL, b"\x03\xe8")],
        [wire.sframe(B, b"ab", mask=b"\x01\x02\x03\x04")],
        [wire.sframe(T, b"ok"), wire.sframe(T, b"\xff")],
        [wire.sframe(T, b"q"), wire.sframe(C, b"bad")],
    ]
    for frames in shorts:
        stream = b"".join(frames)
        L = len(stream)
        allcuts = list(range(1, L))
        apis = MSG_APIS if tier == "thorough" else [MSG_APIS[0], MSG_APIS[1], MSG_APIS[3]]
        subsets = []
        if L <= (14 if tier == "thorough" else 10):
            for k in range(len(allcuts) + 1):
                subsets += list(itertools.combinations(allcuts, k))
        else:
            subsets = [(), tuple(allcuts)] + [tuple(sorted(rng.sample(allcuts, rng.randrange(1, len(allcuts)))))
                                               for _ in range(300 if tier == "quick" else 3000)]
        for ai, api in enumerate(apis):
            for cs in subsets:
                f.add(stream, [api], cuts=cs, end="eof", max_calls=len(frames) + 3,
                      via_connect=(hash((cs, ai)) % 7 == 0))
            # one timeout at every position, every pair (thorough) - with the finest and the coarsest cutting
            for p in range(L + 1):
                for cs in ((), "every"):
                    f.add(stream, [api], cuts=cs, timeouts=[p], end="timeout", max_calls=len(frames) + 4)
            pairs = list(itertools.combinations_with_replacement(range(L + 1), 2))
            if tier == "quick":
                pairs = rng.sample(pairs, min(len(pairs), 25))
            for p, q in pairs:
                f.add(stream, [api], cuts=rng.choice([(), "every"]), timeouts=[p, q], end="eof", max_calls=len(frames) + 5,
                      via_connect=rng.random() < 0.1)
    # a timeout inside a frame, then a connect() of the same object that is refused for its URL: the connection goes on
    for frames in shorts[:6]:
        stream = b"".join(frames)
        for p in range(1, len(stream)):
            f.add(stream, [rng.choice(MSG_APIS)], cuts="every", timeouts=[p], max_calls=len(frames) + 4, bad_connect=True)
    # the handshake response itself arrives in pieces of 1, 2, 3, 7 bytes (frames follow in the same flow)
    for frames in shorts[:6]:
        for hc in (1, 2, 3, 7):
            f.add(b"".join(frames), [rng.choice(MSG_APIS)], cuts=rng.choice([(), "every"]), via_connect=True, max_calls=len(frames) + 3, head_chunk=hc)
    # non-blocking transport (settimeout(0)): "would block" at every byte position, the caller retries
    for frames in shorts[:5]:
        stream = b"".join(frames)
        L = len(stream)
        for api in (MSG_APIS[0], MSG_APIS[3]):
            for p in range(L + 1):
                f.add(stream, [api], cuts="every", timeouts=[p], end="timeout", max_calls=len(frames) + 4, nonblocking=True)
            f.add(stream, [api], cuts="every", timeouts=list(range(L + 1)), end="timeout", max_calls=len(frames) + L + 5, nonblocking=True)
    # frames with extended length forms: a timeout at every position of the first bytes (header, extended length,
    # key), and cuts everywhere around them
    for n, masked in ((126, None), (300, b"\x01\x02\x03\x04"), (65536, None), (200, None)):
        if n > 60000 and tier == "quick":
            n = 66000
        body = bytes((i * 7) % 251 for i in range(n))
        fr = wire.sframe(B, body, mask=masked)
        nxt = wire.sframe(T, b"tail")
        stream = fr + nxt
        hl = len(fr) - n
        for api in (MSG_APIS[0], MSG_APIS[3]):
            for p in range(0, hl + 3):
                for cs in ((), tuple(range(1, hl + 4))):
                    f.add(stream, [api], cuts=cs, timeouts=[p], end="eof", max_calls=5)
            f.add(stream, [api], cuts=(), timeouts=[], end="eof", max_calls=4)
    # frames larger than one transport request (16384): tail and next frame in one segment, in 1460-byte segments, random
    for n in ((20000, 40000) if tier == "quick" else (16385, 20000, 32768, 40000, 70000)):
        body = bytes((i * 13) % 253 for i in range(n))
        fr = wire.sframe(B, body)
        nxt = wire.sframe(PI, b"after") + wire.sframe(T, b"end")
        stream = fr + nxt
        L = len(stream)
        for api in (MSG_APIS[0], MSG_APIS[2]):
            f.add(stream, [api], cuts=(), end="eof", max_calls=5)
            f.add(stream, [api], cuts=tuple(range(1460, L, 1460)), end="eof", max_calls=5)
            f.add(stream, [api], cuts=(len(fr),), end="eof", max_calls=5)
            f.add(stream, [api], cuts=tuple(sorted(rng.sample(range(1, L), 6))), end="eof", max_calls=5)
            f.add(stream, [api], cuts=(16384, 16385, len(fr) - 1), timeouts=[16384], end="eof", max_calls=6)
    # long mixed streams
    for _ in range(60 if tier == "quick" else 1200):
        seq = []
        for _k in range(rng.randrange(2, 9)):
            kind = rng.random()
            if kind < 0.4:
                seq.append(wire.sframe(rng.choice([T, B]), bytes(rng.randrange(97, 123) for _ in range(rng.choice([0, 1, 5, 130, 300])))))
            elif kind < 0.7:
                op = rng.choice([T, B])
                n = rng.randrange(2, 5)
                for i in range(n):
                    seq.append(wire.sframe(op if i == 0 else C, bytes(rng.randrange(97, 123) for _ in range(rng.randrange(4))), fin=1 if i == n - 1 else 0))
                    if rng.random() < 0.3:
                        seq.append(wire.sframe(PI, b"k"))
            else:
                seq.append(wire.sframe(rng.choice([PI, PO]), bytes(rng.randrange(256) for _ in range(rng.randrange(6)))))
        stream = b"".join(seq)
        L = len(stream)
        for mode in range(3):
            cuts = "every" if (mode == 0 and L < 400) else sorted(rng.sample(range(1, L), min(L - 1, rng.randrange(1, 12)))) if mode == 1 else ()
            tmo = sorted(rng.randrange(L + 1) for _ in range(rng.choice([0, 1, 2, 3])))
            f.add(stream, [rng.choice(MSG_APIS)], cuts=cuts, timeouts=tmo, end=rng.choice(["eof", "timeout", "reset"]),
                  max_calls=len(seq) + len(tmo) + 4, via_connect=rng.random() < 0.3, fireCont=rng.random() < 0.2)
    return f.out


def fam_garbage(rng, tier):
    """C17 frame phase: exhaustive two-byte prefixes, random bytes, valid traffic with one field
    corrupted or truncated, oversized declared lengths with a few bytes behind; then EOF or silence."""
    f = Fam("gar")
    pairs = [(a, b) for a in range(256) for b in range(256)]
    if tier == "quick":
        pairs = [(a, b) for a in range(256) for b in (0, 1, 2, 125, 126, 127, 128, 129, 253, 254, 255)]
        pairs = rng.sample(pairs, 900)
    for a, b in pairs:
        f.add(bytes([a, b]) + bytes(rng.randrange(256) for _ in range(rng.choice([0, 1, 3, 9]))),
              [rng.choice(ALL_APIS)], end=rng.choice(["eof", "timeout"]), max_calls=4,
              skipUtf8=rng.random() < 0.3, fireCont=rng.random() < 0.3)
    # oversized declared lengths
    for declared in (1 << 16, (1 << 31) - 1, 1 << 31, 1 << 32, 1 << 62, (1 << 63) - 1, 1 << 63, (1 << 64) - 1):
        for op in (T, B, PI, CL, C, 3):
            for masked in (None, b"abcd"):
                fr = wire.sframe(op, b"xyz", 1, 0, masked, length_form=8, declared=declared)
                for end in ("eof", "timeout"):
                    f.add(fr, [rng.choice(ALL_APIS)], end=end, max_calls=3)
    f.add(wire.sframe(T, b"xyz", declared=65535, length_form=2), [["recv", False]], end="eof", max_calls=3)
    # valid traffic, one corruption
    for _ in range(500 if tier == "quick" else 20000):
        seq = [wire.sframe(rng.choice([T, B, PI, PO, C, CL]), bytes(rng.randrange(256) for _ in range(rng.choice([0, 1, 2, 3, 10]))),
                           fin=rng.choice([0, 1, 1])) for _k in range(rng.randrange(1, 5))]
        s = bytearray(b"".join(seq))
        m = rng.random()
        if s and m < 0.5:
            s[rng.randrange(len(s))] = rng.randrange(256)
        elif s and m < 0.8:
            del s[rng.randrange(len(s)):]
        else:
            s += bytes(rng.randrange(256) for _ in range(rng.randrange(1, 6)))
        f.add(bytes(s), [rng.choice(ALL_APIS)], cuts=rng.choice([(), "every"]), end=rng.choice(["eof", "timeout", "reset"]),
              max_calls=8, skipUtf8=rng.random() < 0.4, fireCont=rng.random() < 0.4)
    for _ in range(300 if tier == "quick" else 20000):
        f.add(bytes(rng.randrange(256) for _ in range(rng.randrange(1, 24))), [rng.choice(ALL_APIS)],
              end=rng.choice(["eof", "timeout"]), max_calls=8, skipUtf8=rng.random() < 0.4, fireCont=rng.random() < 0.4)
    return f.out


def fam_api_mix(rng, tier):
    """State carried from one receive call into the next one of a different kind: a call that ends with a timeout
    (or a would-block) before / inside the frame, or that returns an earlier message, is followed by a call through
    another API - the second call's verdict on its own message (well-formed or not) must not depend on the first."""
    import itertools
    f = Fam("mix")
    from .c06 import BAD, SEEDS
    good = [s.encode() for s in SEEDS if s][:3]
    bad = BAD if tier == "thorough" else BAD[:6] + rng.sample(BAD[6:], 4)
    apis = ALL_APIS
    for txt in bad + good:
        fr = wire.sframe(T, txt)
        for a1, a2 in itertools.permutations(apis, 2):
            if tier == "quick" and rng.random() < 0.5:
                continue
            # the first call is interrupted before the frame, inside its header or inside its payload
            for pos in (0, 1, 2 + len(txt) // 2):
                if pos >= len(fr):
                    continue
                for nb in (False, True):
                    if nb and tier == "quick" and rng.random() < 0.6:
                        continue
                    f.add(fr + wire.sframe(B, b"\xff"), [a1, a2, a2], timeouts=[pos], cuts=[pos] if pos else [], nonblocking=nb, max_calls=4)
            # the first call returns a message of its own, the second one judges the next message
            f.add(wire.sframe(T, b"ok") + fr + wire.sframe(B, b"\xff"), [a1, a2, a2], max_calls=4)
            f.add(wire.sframe(B, b"\xff\xfe") + fr + wire.sframe(T, b"z"), [a1, a2, a1], max_calls=4)
            # ... or ends with a refused message of its own
            f.add(wire.sframe(T, b"\xc3") + fr + wire.sframe(B, b"\xff"), [a1, a2, a2], max_calls=4)
    return f.out


def fam_common(rng, tier):
    """A small mixed pool that every receive-side check runs, so that a clause of property X broken
    by a change is seen by ./check X even if X's focused families do not exercise that path."""
    out = []
    for fam in (fam_decode, fam_fragments, fam_legality, fam_utf8, fam_pings, fam_segmentation, fam_api_mix):
        scs = fam(random.Random(rng.random()), "quick")
        rng.shuffle(scs)
        out += scs[:120]
    for i, sc in enumerate(out):
        sc["tid"] = "com%d" % i
    return out


FAMILIES = {
    "C02": [("decode", fam_decode), ("api_mix", fam_api_mix)],
    "C03": [("segmentation", fam_segmentation)],
    "C04": [("fragments", fam_fragments)],
    "C05": [("legality", fam_legality)],
    "C06": [("utf8_messages", fam_utf8), ("api_mix", fam_api_mix)],
    "C07": [("pings", fam_pings)],
    "C17": [("garbage_frames", fam_garbage)],
}


def run_for(ctx, pid, with_mc=True):
    rng = random.Random(ctx.seed * 1000003 + int(pid[1:]))
    if with_mc:
        model_check(ctx, pid)
    fams = FAMILIES[pid] + [("common_pool", fam_common)]
    for tag, fn in fams:
        scs = fn(rng, ctx.tier)
        rejected = validate(ctx, pid, scs, tag)
        judge(ctx, pid, rejected, focused=(tag != "common_pool"))
        if pid == "C03" and tag != "common_pool":
            group_rule(ctx, scs, rejected)
    if pid in ("C02", "C03", "C04", "C05", "C06", "C07"):
        from . import recv_model
        recv_model.replay(ctx, pid)
    if pid in ("C02", "C03"):
        big_frames(ctx, pid)
    if pid in ("C03", "C07"):
        real_socket_streams(ctx, pid)
    if pid == "C03":
        real_socket_handshake(ctx)
        from . import app_common
        app_common.run_extra(ctx, "C03", app_common.fam_app_bursts, "app_bursts",
                             cross={"C13.delivered_late (waited for further traffic)", "C13.events_out_of_order_or_skipped",
                                    "C13.event_never_delivered_although_connection_stayed_up", "C13.delivered_content_differs"})
    negative_controls(ctx, pid)


def big_frames(ctx, pid):
    """Frames of a megabyte and more (masked and unmasked, lengths in every residue mod 4, one receive timeout inside the
    payload, a following frame).  Such payloads are not put through TLC: what the calls return is compared with the
    harness's independent decoder (vf/wire.py) here, and reported with the same clause names."""
    import hashlib
    import websocket
    from ..recvworld import FakeSock
    rng = random.Random(ctx.seed * 97 + int(pid[1:]))
    base = 1 << 20
    sizes = [base + d for d in (0, 1, 2, 3, 6)] + ([3 * base + 5, base - 1] if ctx.tier == "thorough" else [])
    n = 0
    for size in sizes:
        for masked in (True, False):
            for tmo in (None, "inside"):
                for api in ("recv_frame", "recv_data", "recv", "recv_text"):
                    if ctx.tier == "quick" and (n + size) % 3 and not (api == "recv_text" and size <= base + 1):
                        n += 1
                        continue
                    n += 1
                    # (recv_text: the big frame is a text message - letters and a few multi-byte characters - read with recv())
                    text = api == "recv_text"
                    payload = rng.randbytes(size) if not text else (("%c" % (97 + size % 26)) * (size - 5) + "\u00e9\u20ac").encode()
                    bigop = 1 if text else 2
                    api = "recv" if text else api
                    key = rng.randbytes(4) if masked else None
                    big = wire.sframe(bigop, payload, mask=key)
                    after = [wire.sframe(1, b"after"), wire.sframe(2, b"\x00\x01")]
                    stream = big + b"".join(after)
                    pos = 14 + rng.randrange(size - 100) if tmo else None
                    sc = {"stream": stream, "cuts": [pos] if pos else [], "timeouts": [pos] if pos else []}
                    ws = websocket.WebSocket()
                    ws.sock = FakeSock(sc, lambda e: None)
                    ws.connected = True
                    got = []
                    for _ in range(6):
                        try:
                            if api == "recv_frame":
                                fr = ws.recv_frame()
                                got.append((int(fr.opcode), hashlib.sha256(bytes(fr.data)).hexdigest(), len(fr.data)))
                            elif api == "recv_data":
                                op, d = ws.recv_data()
                                got.append((int(op), hashlib.sha256(bytes(d)).hexdigest(), len(d)))
                            else:
                                v = ws.recv()
                                if type(v) not in (str, bytes):     # recv() hands out str for text and bytes for binary, nothing else
                                    got.append(("badtype", type(v).__name__, ""))
                                    break
                                b = v.encode() if isinstance(v, str) else bytes(v)
                                got.append((1 if isinstance(v, str) else 2, hashlib.sha256(b).hexdigest(), len(b)))
                        except websocket.WebSocketTimeoutException:
                            continue
                        except websocket.WebSocketConnectionClosedException:
                            break
                        except Exception as e:      # noqa
                            got.append(("raise", type(e).__name__, str(e)[:60]))
                            break
                    want = [(bigop, hashlib.sha256(payload).hexdigest(), size), (1, hashlib.sha256(b"after").hexdigest(), 5),
                            (2, hashlib.sha256(b"\x00\x01").hexdigest(), 2)]
                    ctx.case(("big", size, masked, bool(tmo), api))
                    ctx.traces += 1
                    if got != want:
                        clause = "C02.decoded_result_differs" if not tmo else "C03.result_depends_on_segmentation"
                        first = next((i for i, (a, b) in enumerate(zip(got + [None] * 3, want)) if a != b), 0)
                        ctx.deviation(None, "frame of %d bytes (%s%s) via %s followed by two frames: result %d differs from the independent decoder: got %s"
                                      % (size, "masked" if masked else "unmasked", ", one timeout inside the payload" if tmo else "", api, first,
                                         [g[:1] + g[2:] if g[0] not in ("raise", "badtype") else g for g in got][:4]),
                                      {"clause": clause, "size": size, "masked": masked, "timeout_at": pos, "api": api})
    ctx.notes["big_frames"] = n


def real_socket_handshake(ctx):
    """The handshake response over a real socket.socket (a socket pair), written by the peer in two segments with a pause, the
    cut at every position around the line ends of the head (CR | LF, LF | next line, before the blank line) and inside the first
    frame: connect() succeeds and the frames that follow are delivered - whatever reading strategy a plain socket invites."""
    import re
    import socket as pysocket
    import threading
    import time as pytime
    import websocket
    frames = wire.sframe(T, b"first") + wire.sframe(B, b"\x01\x02")
    probe = wire.response_head(b"x" * 24)
    marks = sorted({m.start() + d for m in re.finditer(rb"\r\n", probe) for d in (0, 1, 2)} | {1, 5, len(probe) - 1, len(probe), len(probe) + 1, len(probe) + 3})
    if ctx.tier == "quick":
        marks = marks[::2] + [len(probe) - 3]
    for cut in sorted(set(marks)):
        a, b = pysocket.socketpair()
        res = {}

        def server(sock=b, cut=cut):
            try:
                sock.settimeout(5)
                buf = b""
                while b"\r\n\r\n" not in buf:
                    d = sock.recv(4096)
                    if not d:
                        return
                    buf += d
                key = [l.split(b":", 1)[1].strip() for l in buf.split(b"\r\n") if l.lower().startswith(b"sec-websocket-key:")][0]
                out = wire.response_head(key) + frames
                sock.sendall(out[:cut])
                pytime.sleep(0.04)
                sock.sendall(out[cut:])
                pytime.sleep(0.3)
            except OSError as e:
                res["server_error"] = repr(e)
            finally:
                sock.close()
        th = threading.Thread(target=server, daemon=True)
        th.start()
        got = []
        try:
            a.settimeout(3)
            ws = websocket.create_connection("ws://example.test/real", socket=a, timeout=3)
            for _ in range(2):
                op, d = ws.recv_data()
                got.append((int(op), bytes(d)))
        except Exception as e:      # noqa
            got.append(("raise", type(e).__name__, str(e)[:70]))
        finally:
            try:
                a.close()
            except OSError:
                pass
        th.join(3)
        ctx.case(("real_socket_handshake", cut))
        ctx.traces += 1
        if got != [(1, b"first"), (2, b"\x01\x02")]:
            ctx.deviation(None, "real socket pair, response head + two frames written as two segments cut at byte %d (of %d head bytes): got %s"
                          % (cut, len(probe), got), {"clause": "C03.valid_handshake_response_refused", "cut": cut, "got": repr(got)})


def real_socket_streams(ctx, pid):
    """Frame streams over a real socket.socket (a socket pair, no fake transport): the same stream written by the peer in one
    segment and frame by frame with pauses.  What the calls return and what the client writes back (pongs, the close reply)
    is the same for both and equals what the frames say - whatever a real socket lets an implementation look at (peeking,
    the amount already queued, flags of recv())."""
    import socket as pysocket
    import threading
    import time as pytime
    import websocket
    streams = [
        [(PI, b"probe-a", 1), (PI, b"probe-b", 1), (T, b"t", 1)],
        [(PI, b"", 1), (PI, b"", 1), (PI, b"x", 1), (CL, b"\x03\xe8", 1)],
        [(T, b"fr", 0), (PI, b"1", 1), (PI, b"2", 1), (C, b"ag", 1), (PI, b"3", 1)],
        [(PO, b"u", 1), (PI, b"k", 1), (B, b"\x00", 1), (PI, b"k", 1), (PI, b"k", 1)],
    ]
    for si, frames in enumerate(streams):
        want_ret, acc, aop = [], b"", None       # (the message-level call hands fragments over reassembled)
        for op, pl, fin in frames:
            if op in (T, B, C):
                aop, acc = (op if op != C else aop), acc + pl
                if fin:
                    want_ret.append((aop, acc, 1))
                    acc, aop = b"", None
            else:
                want_ret.append((op, pl, fin))
        want_wr = [(PO, pl) for op, pl, fin in frames if op == PI] + [(CL, b"\x03\xe8") for op, pl, fin in frames if op == CL]
        for mode in ("one_segment", "per_frame"):
            a, b = pysocket.socketpair()
            wrote = bytearray()

            def server(sock=b, frames=frames, mode=mode, wrote=wrote):
                try:
                    sock.settimeout(5)      # (ends at the end of stream: the client shuts its side down when it is done)
                    if mode == "one_segment":
                        sock.sendall(b"".join(wire.sframe(op, pl, fin) for op, pl, fin in frames))
                    else:
                        for op, pl, fin in frames:
                            sock.sendall(wire.sframe(op, pl, fin))
                            pytime.sleep(0.03)
                    while True:
                        try:
                            d = sock.recv(4096)
                        except OSError:
                            break
                        if not d:
                            break
                        wrote += d
                finally:
                    sock.close()
            th = threading.Thread(target=server, daemon=True)
            th.start()
            got = []
            ws = websocket.WebSocket()
            ws.sock = a
            ws.connected = True
            a.settimeout(3)
            if mode == "one_segment":
                pytime.sleep(0.05)       # everything is queued at the client before the first call
            try:
                for _ in want_ret:
                    op, fr = ws.recv_data_frame(True)
                    got.append((int(op), bytes(fr.data), int(fr.fin)))
            except Exception as e:      # noqa
                got.append(("raise", type(e).__name__, str(e)[:70]))
            pytime.sleep(0.02)
            try:
                a.shutdown(pysocket.SHUT_WR)
            except OSError:
                pass
            th.join(3)
            try:
                a.close()
            except OSError:
                pass
            try:
                wr = [(f["op"], f["payload"]) for f in wire.decode_client_frames(bytes(wrote))]
            except ValueError as e:
                wr = [("junk", repr(e))]
            ctx.case(("real_socket_stream", si, mode))
            ctx.traces += 1
            if got != want_ret or wr != want_wr:
                clause = "C07.ping_not_answered" if wr != want_wr else "C02.decoded_result_differs"
                if pid == "C03":
                    clause = "C03.result_depends_on_segmentation"
                ctx.deviation(None, "real socket pair, frames %s written %s: calls gave %s (expected %s), client wrote %s (expected %s) - clause %s"
                              % ([(op, pl.hex(), fin) for op, pl, fin in frames], mode.replace("_", " "), got, want_ret, wr, want_wr, clause),
                              {"clause": clause, "stream": si, "mode": mode, "got": repr(got), "wrote": repr(wr)})
    ctx.notes["real_socket_streams"] = 2 * len(streams)


def negative_controls(ctx, pid):
    """Binding demonstrated: a recorded trace with one field corrupted / one event removed must be
    rejected by TraceRecv (counts go to the evidence; a control that is accepted is a machinery failure)."""
    sc = dict(tid="neg0", stream=wire.sframe(PI, b"hello") + wire.sframe(T, b"a", 0) + wire.sframe(C, b"b", 1),
              calls=[["recv_data_frame", False]], cuts=(), timeouts=[], end="eof", fireCont=False, skipUtf8=False, max_calls=3)
    base = run_scenario(sc)
    variants = []

    def clone(tid):
        import copy
        t = copy.deepcopy(base)
        for e in t:
            e["tid"] = tid
        return t
    t = clone("neg_payload")
    [e for e in t if e["ev"] == "ret"][0]["data"][0] ^= 1
    variants.append(t)
    t = clone("neg_pong_removed")
    t.remove([e for e in t if e["ev"] == "tsend"][0])
    variants.append(t)
    t = clone("neg_pong_payload")
    [e for e in t if e["ev"] == "tsend"][0]["bytes"][-1] ^= 0x20
    variants.append(t)
    t = clone("neg_opcode")
    [e for e in t if e["ev"] == "ret"][0]["op"] = 2
    variants.append(t)
    t = clone("neg_req")
    [e for e in t if e["ev"] == "trecv"][0]["req"] = 20000
    variants.append(t)
    variants.append(clone("pos_unchanged"))
    d = tlc.scratch("%s_neg_traces" % pid.lower())
    path = os.path.join(d, "neg.ndjson")
    import json
    with open(path, "w") as f:
        for t in variants:
            for i, e in enumerate(t):
                e["i"] = i
                f.write(json.dumps(e) + "\n")
    _, r = _tlc_shard((0, path, "%s_neg" % pid.lower()))
    v = tlc.emitted(r, "VERDICT")[0]
    rejected = {b["tid"]: b["why"] for b in v["bad"]}
    want = {"neg_payload", "neg_pong_removed", "neg_pong_payload", "neg_opcode", "neg_req"}
    ctx.notes.setdefault("negative_controls", {}).update({"rejected": rejected, "accepted": v["accepted"]})
    if set(rejected) != want or v["accepted"] != 1:
        ctx.machinery_error = "negative controls: expected %s rejected and 1 accepted, got %s / %d" % (sorted(want), rejected, v["accepted"])


def replay(ctx, pid, path):
    import json
    c = json.load(open(path))["case"]
    sc = c["scenario"]
    sc["stream"] = bytes(sc["stream"])
    rejected = validate(ctx, pid, [sc], "replay")
    judge(ctx, pid, rejected)
    for e in run_scenario(sc):
        print({k: v for k, v in e.items() if k not in ("tid",)})
    return ctx.finish()
