"""WebSocketApp properties (C13-C16): scenario families, execution in the deterministic concurrent
world (vf/appworld.py), validation by TLC against the monitor AppMon (TraceApp), model checking of
the process model App.tla against the same monitor."""
import concurrent.futures as cf
import itertools
import json
import os
import random

from .. import appworld, approj, tlc


def _run_chunk(scs):
    out = []
    for sc in scs:
        try:
            log, sched = appworld.run_app(sc, schedule=sc.get("schedule"), seed=sc.get("sched_seed"))
            out.append(approj.project(log, sc, sc["tid"]))
        except Exception as e:
            out.append([{"ev": "begin", "tid": sc["tid"], "i": 0}, {"ev": "harness_error", "tid": sc["tid"], "i": 1, "what": repr(e)[:300]},
                        {"ev": "end", "tid": sc["tid"], "i": 2}])
    return out


def _shard(args):
    k, path, tag = args
    return k, tlc.run("TraceApp", "SPECIFICATION TSpec\nINVARIANT CloseAtMostOnce\nINVARIANT Report\n", tag,
                      env={"TRACE_FILE": path}, workers=1, timeout=3000, heap="3g")


def validate(ctx, pid, scs, tag):
    procs = 12 if len(scs) > 60 else 1
    if procs > 1:
        with cf.ProcessPoolExecutor(procs) as ex:
            parts = list(ex.map(_run_chunk, [scs[i::procs] for i in range(procs)]))
    else:
        parts = [_run_chunk(scs)]
    traces = {t[0]["tid"]: t for p in parts for t in p}
    order = [traces[sc["tid"]] for sc in scs]
    shards = max(1, min(10, len(order) // 100))
    d = tlc.scratch("%s_%s_in" % (pid.lower(), tag))
    jobs = []
    for k in range(shards):
        path = os.path.join(d, "t%d.ndjson" % k)
        with open(path, "w") as f:
            for t in order[k::shards]:
                for e in t:
                    f.write(json.dumps(e, separators=(",", ":")) + "\n")
        jobs.append((k, path, "%s_%s_v%d" % (pid.lower(), tag, k)))
    bad = []
    acc = 0
    with cf.ThreadPoolExecutor(shards) as ex:
        for k, r in ex.map(_shard, jobs):
            ctx.add_tlc(r, "TraceApp shard %d (%s)" % (k, tag))
            if r.violated:
                ctx.machinery_error = "TraceApp invariant violated: %s" % r.violated
            v = tlc.emitted(r, "VERDICT")[0]
            bad += v["bad"]
            acc += v["accepted"]
    ctx.traces += len(order)
    ctx.notes.setdefault("families", {})[tag] = {"traces": len(order), "accepted": acc, "rejected": len(bad)}
    by = {sc["tid"]: sc for sc in scs}
    for sc in scs:
        ctx.case((tag, json.dumps({k: v for k, v in sc.items() if k != "tid"}, sort_keys=True, default=repr)))
    if order:
        ctx.sample({"family": tag, "scenario": {k: v for k, v in scs[len(scs) // 2].items()},
                    "trace": [{k: v for k, v in e.items() if k != "tid"} for e in order[len(order) // 2][:14]]})
    return [(by[b["tid"]], b, traces[b["tid"]]) for b in bad]


def finding_for(ctx, clause, sc, trace, b):
    for fid, f in ctx.all_open_findings.items():      # (the clause may be owned by another property: see APP_CROSS)
        if f.get("clause") != clause:
            continue
        pat = f.get("pattern")
        if pat is None or match_pattern(pat, sc, trace, b):
            return fid
    return None


def match_pattern(pat, sc, trace, b):
    """pattern: dict of simple predicates over the scenario; all must hold"""
    run = sc.get("run", {})
    if "interval_le_2x_timeout" in pat:
        i, t = run.get("ping_interval") or 0, run.get("ping_timeout") or 0
        if not (t and i and t < i <= 2 * t):
            return False
    if "schedule_kind" in pat and sc.get("kind") != pat["schedule_kind"]:
        return False
    if "phase" in pat and phase_of(trace) not in pat["phase"]:
        return False
    if "family" in pat and not sc["tid"].startswith(pat["family"]):
        return False
    if "action_in" in pat:
        acts = sc.get("actions", {})
        if not any(a == "close" for name in pat["action_in"] for a in acts.get(name, [])):
            return False
    if "dispatcher" in pat and run.get("dispatcher") != pat["dispatcher"]:
        return False
    if "user_close" in pat and not sc.get("user"):
        return False
    if "scenario_pattern" in pat and sc.get("pattern") != pat["scenario_pattern"]:
        return False
    if "item_kind" in pat:
        if not any(it[0] == pat["item_kind"] for c in sc["conns"] for _, it in c.get("events", [])):
            return False
    return True


def judge(ctx, pid, rejected, cross=()):
    for sc, b, trace in rejected:
        why = b["why"]
        owner = pid if (why in cross or why == "C14.internal_error_reported_to_on_error") else why.split(".")[0]
        brief = [{k: v for k, v in e.items() if k in ("ev", "t", "name", "kind", "cid", "outcome", "cls", "value", "status", "none", "dtype", "where", "n")}
                 for e in trace[max(0, b["at"] - 3):b["at"] + 1]]
        scd = {k: v for k, v in sc.items() if k not in ("tid",)}
        if owner.startswith("X"):
            ctx.remark("DRIFT (extended coverage, not a listed property): %s in scenario family %s" % (why, sc["tid"].rstrip("0123456789_")))
        elif owner == "harness":
            ctx.machinery_error = "harness inconsistency %s in %s: %s" % (why, sc["tid"], trace[max(0, b["at"] - 2):b["at"] + 1])
        elif owner == pid:
            ctx.deviation(finding_for(ctx, why, sc, trace, b),
                          "scenario %s: event %d breaks %s; scenario=%s; last events=%s" % (sc["tid"], b["at"], why, json.dumps(scd, default=repr)[:260], str(brief)[:420]),
                          {"scenario": scd, "tid": sc["tid"], "clause": why, "at": b["at"], "trace": trace})
        else:
            ctx.remark("clause %s failed in a %s scenario (%s); judged by ./check %s" % (why, pid, sc["tid"].rstrip("0123456789"), owner))


# ---------------------------------------------------------------------------------------------
# scenario families
# ---------------------------------------------------------------------------------------------
ITEMS = [("text", "hi"), ("binary", b"\x00\x01"), ("frag", 1, ["a", "é"]), ("frag", 2, [b"\x01", b"", b"\x02"]), ("ping", b"pi"),
         ("pong", b"po"), ("burst", [("text", "b1"), ("binary", b"b2"), ("ping", b"")]), ("text", ""),
         # text fragments that end inside a character (2-, 3- and 4-byte characters cut at every byte)
         ("frag", 1, [b"\xf0\x9f\x98", b"\x80"]), ("frag", 1, [b"a\xf0", b"\x9f", b"\x98\x80\xe2\x82", b"\xacz"]),
         # the first length of the 16-bit form, as a whole frame and as a fragment
         ("binary", bytes(range(126))), ("frag", 1, ["y" * 126, "z"]),
         # every ASCII character is text (0x7f and the control characters included)
         ("text", "a\x7fb\x00\x1f~")]


def fam_delivery(rng, tier):
    """C13: all histories of up to 3 (thorough 4) server events, every subset of callbacks (sampled),
    a callback raising, plain and TLS transport, bursts followed by silence."""
    out = []
    n = 0
    maxlen = 2 if tier == "quick" else 3
    hists = []
    for k in range(1, maxlen + 1):
        hists += list(itertools.product(range(len(ITEMS)), repeat=k))
    extra = [tuple(rng.randrange(len(ITEMS)) for _ in range(rng.randrange(3, 6))) for _ in range(150 if tier == "quick" else 3000)]
    allcbs = ["open", "message", "data", "error", "close", "ping", "pong"]
    for h in hists + extra:
        for variant in range(2 if tier == "quick" else 4):
            events = [(rng.choice([0, 50, 400]), ITEMS[i]) for i in h]
            gap_end = rng.choice([300, 12000])
            events.append((gap_end, ("close", 1000, b"done")))
            cbs = allcbs if variant == 0 else sorted(rng.sample(allcbs, rng.randrange(2, 7)))
            actions = {}
            if variant >= 1 and rng.random() < 0.6:
                nm = rng.choice([c for c in cbs if c in ("open", "message", "data", "ping", "pong")] or ["open"])
                actions = {nm: [rng.choice(["raise", "send"])]}
            n += 1
            # some runs with a keepalive configured (interval longer than the scenario: no ping falls into it; pongs of the
            # server are then unsolicited and carry other payloads than ours) and some with debug tracing switched on
            run = {"ping_interval": 30, "ping_payload": rng.choice(["hb", "po"])} if n % 5 == 0 else {}
            out.append({"tid": "dlv%d" % n, "conns": [{"events": events}], "run": run, "callbacks": cbs, "actions": actions,
                        "send_after_run": n % 4 == 0, "trace": n % 7 == 0, "cb_style": [None, "partial", "object"][n % 3],
                        "tls": bool(variant % 2) if tier == "thorough" else (n % 3 == 0), "horizon": 60000})
    # messages whose frame arrives slowly: the first bytes (inside the two-byte header, inside the extended length, at the
    # first payload byte), a pause longer than any read timeout of the run, then the rest - delivered when complete, and
    # everything after it as well
    for L in (126, 300, 65535, 65536) if tier == "thorough" else (126, 65536):
        hl = 4 if L < 65536 else 10
        for k in sorted({1, 2, 3, hl - 1, hl, hl + 1}):
            for run in ({"ping_interval": 30, "ping_timeout": 2}, {}, {"ping_interval": 30, "ping_timeout": 2, "dispatcher": "ext", "reconnect": 2}):
                for op in ("text", "binary"):
                    if tier == "quick" and (k + L + len(run) + len(op)) % 2:
                        continue
                    n += 1
                    body = ("m" * L) if op == "text" else bytes([k]) * L
                    events = [(100, ("split", (op, body), k, 3500)), (200, ("text", "after")), (50, ("ping", b"p")), (300, ("close", 1000, b"done"))]
                    out.append({"tid": "dlv%d" % n, "conns": [{"events": events}], "run": dict(run), "horizon": 60000})
    return out


def fam_redirected_delivery(rng, tier):
    """C13: the connection is reached by a redirect (ws -> ws, ws -> wss): delivery is as prompt and complete as on a direct one,
    in particular frames that share a TLS record with an earlier one."""
    out = []
    n = 0
    burst = ("burst", [("text", "b1"), ("binary", b"b2"), ("ping", b""), ("text", "b3")])
    # TLS with an external (event-loop) dispatcher: the same bursts
    for items in ([burst], [("text", "a"), burst, ("pong", b"po")]):
        n += 1
        ev = [(50, it) for it in items] + [(12000, ("close", 1000, b"done"))]
        out.append({"tid": "rdl%d" % n, "conns": [{"events": ev}], "run": {"dispatcher": "ext"}, "tls": True, "horizon": 60000})
    for loc in ("ws://app.test/x", "wss://app.test/x"):
        for status in (301, 302, 307):
            for items in ([burst], [("text", "a"), burst, ("pong", b"po")], [("frag", 1, ["p", "q"]), burst]):
                n += 1
                ev = [(50, it) for it in items] + [(12000, ("close", 1000, b"done"))]
                out.append({"tid": "rdl%d" % n, "conns": [{"status": status, "location": loc}, {"events": ev}], "run": {}, "fake_tls": True,
                            "horizon": 60000})
    return out


def fam_app_text(rng, tier):
    """C06 at the application level: ill-formed text is never handed to on_data/on_message, with and without
    on_cont_message installed (which switches the connection to per-fragment delivery, where the frame layer
    does not validate), after well-formed traffic; unfragmented frames only."""
    from .c06 import BAD
    out = []
    n = 0
    allcbs = ["open", "message", "data", "error", "close", "ping", "pong"]
    for bad in BAD[:12] + [b"ok\xff", "é".encode() + b"\xed\xa0\x80"]:
        for cbs in (allcbs, allcbs + ["cont_message"], ["message", "cont_message", "close"]):
            for pre in ([], [(10, ("text", "grüße")), (10, ("binary", b"\xff"))]):
                n += 1
                out.append({"tid": "atx%d" % n, "conns": [{"events": pre + [(10, ("rawtext", bad)), (10, ("text", "after"))]}], "run": {},
                            "callbacks": cbs, "horizon": 60000})
    return out


def fam_app_bursts(rng, tier):
    """C03 at the application level: the same frames in one segment or in separate segments, followed by silence, are
    handed over at once (nothing waits in a buffer for further traffic)."""
    out = []
    n = 0
    small = [("text", "a"), ("binary", b"\x01\x02"), ("ping", b"p"), ("text", ""), ("pong", b""), ("frag", 1, ["x", "y"])]
    for k in (2, 3, 4):
        for _ in range(12 if tier == "quick" else 80):
            items = [rng.choice(small) for _ in range(k)]
            for mode in ("burst", "apart"):
                for tls in (False, True):
                    ev = [(20, ("burst", items))] if mode == "burst" else [(20 if i == 0 else 0, it) for i, it in enumerate(items)]
                    n += 1
                    out.append({"tid": "abu%d" % n, "conns": [{"events": ev + [(15000, ("close", 1000, b""))]}], "run": {}, "tls": tls,
                                "horizon": 60000})
    return out


ENDINGS = [("close", 1000, b"bye"), ("close", None, b""), ("close", 4000, "grüße".encode()), ("eof",), ("reset",), ("bad",), ("badutf8",)]


def fam_endings(rng, tier):
    """C14: every way of ending a run, with traffic before it, followed by a second run."""
    out = []
    n = 0
    pre = [[], [(10, ("text", "x"))], [(10, ("ping", b"")), (10, ("frag", 1, ["p", "q"]))]]
    for end in ENDINGS:
        for p in pre:
            for runs in (1, 2):
                for cbs in (None, ["open", "message", "close"], ["error", "close"]):
                    n += 1
                    conns = [{"events": p + [(20, end)]} for _ in range(runs)]
                    sc = {"tid": "end%d" % n, "conns": conns, "run": {}, "runs": runs, "horizon": 90000}
                    if cbs:
                        sc["callbacks"] = cbs
                    out.append(sc)
    # the same endings with debug tracing switched on; a close reason that is not UTF-8 while validation is skipped
    for end in ENDINGS:
        for cbs in (None, ["error", "close"]):
            n += 1
            sc = {"tid": "end%d" % n, "conns": [{"events": [(10, ("text", "x")), (20, end)]}], "run": {}, "trace": True, "horizon": 90000}
            if cbs:
                sc["callbacks"] = cbs
            out.append(sc)
    for reason in (b"\xff\xfe", b"ok", b"\xc3"):
        for runs in (1, 2):
            n += 1
            out.append({"tid": "end%d" % n, "conns": [{"events": [(10, ("text", "x")), (20, ("close", 1000, reason))]} for _ in range(runs)],
                        "run": {"skip_utf8_validation": True}, "runs": runs, "horizon": 90000})
    # a run that ends inside the connection attempt (refused / rejected) while on_error raises, both dispatchers
    for first in ({"accept": False}, {"status": 403}):
        for act in ("raise", "kbint"):
            for disp in (None, "ext"):
                n += 1
                run = {"dispatcher": disp} if disp else {}
                out.append({"tid": "end%d" % n, "conns": [dict(first), {"events": [(5, ("close", 1000, b""))]}], "run": run, "runs": 2,
                            "actions": {"error": [act]}, "horizon": 90000})
    # the same object run twice with different settings: a keepalive run that ends with a ping unanswered, then a run with
    # only a ping timeout (no pings): nothing of the first run may be judged in the second
    for end1 in (("close", 1000, b"one"), ("eof",)):
        for kw2 in ({"ping_timeout": 2}, {}, {"ping_interval": 4, "ping_timeout": 1}):
            n += 1
            out.append({"tid": "end%d" % n, "runs": 2, "horizon": 90000,
                        "conns": [{"events": [(6500, end1)], "pong": None}, {"events": [(1000, ("text", "second")), (6000, ("close", 1000, b"bye"))], "pong": 0}],
                        "run": {}, "runs_kw": [{"ping_interval": 3}, kw2]})
    # two runs of one object that end in different ways (nothing of the first run may show in the second)
    for e1 in ENDINGS:
        for e2 in ENDINGS:
            if e1 == e2 or (tier == "quick" and rng.random() < 0.4):
                continue
            n += 1
            out.append({"tid": "end%d" % n, "conns": [{"events": [(10, ("text", "r1")), (20, e1)]}, {"events": [(10, ("ping", b"")), (20, e2)]}],
                        "run": {}, "runs": 2, "horizon": 90000})
    # refused / rejected / then a clean second run
    for first in ({"accept": False}, {"status": 403}, {"status": 200}):
        for second_end in (("close", 1001, b""), ("eof",)):
            n += 1
            out.append({"tid": "end%d" % n, "conns": [first, {"events": [(5, ("text", "ok")), (5, second_end)]}], "run": {}, "runs": 2, "horizon": 90000})
    # close() from each callback; KeyboardInterrupt from callbacks
    for name in ("open", "message", "data", "ping", "pong", "error", "close"):
        for act in ("close", "kbint"):
            if act == "kbint" and name in ("error", "close"):
                continue
            for end in (("close", 1000, b"late"), ("eof",)):
                n += 1
                ev = [(10, ("text", "m")), (10, ("ping", b"")), (10, ("pong", b"")), (500, end)]
                out.append({"tid": "end%d" % n, "conns": [{"events": ev}, {"events": [(10, ("close", 1000, b""))]}], "run": {},
                            "actions": {name: [act]}, "runs": 2, "horizon": 90000})
    # two runs of one object that both end by a ping timeout (silent peers)
    for answer2 in (None, {"stop_after": 1, "latency": 0}):
        n += 1
        out.append({"tid": "end%d" % n, "conns": [{"events": [(10, ("text", "r1"))], "pong": None}, {"events": [(10, ("text", "r2"))], "pong": answer2}],
                    "run": {"ping_interval": 4, "ping_timeout": 1}, "runs": 2, "horizon": 120000})
    # ping timeout ending
    for answer in (None, {"stop_after": 1, "latency": 100}):
        n += 1
        out.append({"tid": "end%d" % n, "conns": [{"events": [], "pong": answer}, {"events": [(5, ("close", 1000, b""))]}],
                    "run": {"ping_interval": 5, "ping_timeout": 2}, "runs": 2, "horizon": 120000})
    # reconnecting runs with a keepalive that lose one, two, three connections and then end (server close frame, close() from a
    # callback, from a second thread): nothing of any of the connections - transport, ping thread - is left; then a second run
    for nloss in (1, 2, 3):
        for kind in ("eof", "reset", "mixed"):
            for how in ("srvclose", "callback", "user"):
                for I, T in ((3, 1), (20, None)):
                    if tier == "quick" and rng.random() < 0.4:
                        continue
                    n += 1
                    loss = [{"events": [(100, ("text", "a")), (150, ("eof",))], "pong": 0}, {"events": [(120, ("reset",))], "pong": 0}, {"accept": False}]
                    conns = [dict(loss[0 if kind == "eof" else 1 if kind == "reset" else (i % 3)]) for i in range(nloss)]
                    last = {"events": [(100, ("text", "last"))] + ([(200, ("close", 1000, b"end"))] if how == "srvclose" else []), "pong": 0}
                    run = {"ping_interval": I, "reconnect": 1}
                    if T:
                        run["ping_timeout"] = T
                    sc = {"tid": "end%d" % n, "conns": conns + [last, {"events": [(10, ("close", 1000, b""))]}], "run": run, "runs": 2,
                          "rerun_gap": 100, "horizon": 200000}
                    if how == "callback":
                        sc["actions"] = {"message": [None] * sum(1 for c in conns if c.get("events") and c["events"][0][1][0] == "text") + ["close"]}
                    elif how == "user":
                        sc["user"] = [(nloss * 1400 + 900, "close")]
                    out.append(sc)
    # user thread close() at various times
    for t in (0, 5, 10, 15, 25, 1000, 12000):
        for end in (("close", 1000, b"x"), ("eof",), None):
            n += 1
            ev = [(10, ("text", "m")), (10, ("frag", 2, [b"a", b"b"]))] + ([(3000, end)] if end else [])
            out.append({"tid": "end%d" % n, "conns": [{"events": ev}, {"events": [(10, ("close", 1000, b""))]}], "run": {},
                        "user": [(t, "close")], "runs": 2, "rerun_gap": 100, "horizon": 90000})
    return out


def fam_reconnect(rng, tier):
    """C15: sequences of connection outcomes with traffic, reconnect intervals, user close at any point
    (including during the reconnect wait), built-in and external dispatcher."""
    out = []
    n = 0
    outcomes = {
        "refused": {"accept": False},
        "rejected": {"status": 503},
        "eof": {"events": [(100, ("text", "a")), (100, ("eof",))]},
        "reset": {"events": [(100, ("reset",))]},
        "srvclose": {"events": [(100, ("text", "z")), (50, ("close", 1000, b"bye"))]},
        "ok_long": {"events": [(100, ("text", "up")), (100, ("binary", b"\x01"))]},
        "ptimeout": {"events": [(50, ("text", "t"))], "pong": None},
    }
    names = list(outcomes)
    seqs = []
    maxlen = 3 if tier == "quick" else 4
    for k in range(1, maxlen + 1):
        seqs += [s for s in itertools.product(names, repeat=k)
                 if "srvclose" not in s[:-1] and "ok_long" not in s[:-1]]
    if tier == "quick":
        seqs = [s for s in seqs if len(s) <= 2] + rng.sample([s for s in seqs if len(s) == 3], 60)
    for s in seqs:
        for R in (1, 3):
            for disp in (None, "ext"):
                for cbs in (None, ["open", "reconnect", "message", "error", "close"]):
                    if tier == "quick" and rng.random() < 0.5 and len(s) > 1:
                        continue
                    run = {"reconnect": R}
                    if "ptimeout" in s:
                        run.update({"ping_interval": 5, "ping_timeout": 2})
                    if disp:
                        run["dispatcher"] = disp
                    n += 1
                    conns = [dict(outcomes[x]) for x in s]
                    sc = {"tid": "rec%d" % n, "conns": conns + [{"events": [(100, ("text", "final")), (100, ("close", 1000, b""))]}],
                          "run": run, "horizon": 200000}
                    if s[-1] == "ok_long":
                        sc["user"] = [(len(s) * 20000 + 7, "close")]
                    if cbs:
                        sc["callbacks"] = cbs
                    out.append(sc)
    # hundreds of consecutive failed attempts: the k-th retry is like the first
    for disp in (None, "ext"):
        n += 1
        run = {"reconnect": 1}
        if disp:
            run["dispatcher"] = disp
        out.append({"tid": "rec%d" % n, "conns": [{"accept": False}] * (450 if disp is None else 120) + [{"events": [(100, ("text", "at last")), (100, ("close", 1000, b""))]}],
                    "run": run, "horizon": 2000000, "max_steps": 400000})
    # the same object run again: a first run ended by the application's own close() (from a second thread, from a callback)
    # or by a server close frame, then a reconnecting run that loses its connection(s) - every retry one interval after the loss
    for how in ("user", "callback", "srvclose"):
        for R in (1, 3):
            for disp in (None, "ext"):
                for losses in (("eof",), ("refused", "reset"), ("ptimeout",)):
                    if tier == "quick" and rng.random() < 0.35:
                        continue
                    n += 1
                    first = {"events": [(100, ("text", "one"))] + ([(200, ("close", 1000, b"bye"))] if how == "srvclose" else [])}
                    conns = [first] + [dict(outcomes[x]) for x in losses] + [{"events": [(100, ("text", "final")), (100, ("close", 1000, b""))]}]
                    run = {"reconnect": R}
                    if disp:
                        run["dispatcher"] = disp
                    if "ptimeout" in losses:
                        run.update({"ping_interval": 5, "ping_timeout": 2})
                    sc = {"tid": "rec%d" % n, "conns": conns, "run": run, "runs": 2, "rerun_gap": 100, "horizon": 300000}
                    if how == "user":
                        sc["user"] = [(700, "close")]
                    elif how == "callback":
                        sc["actions"] = {"message": ["close"]}
                    out.append(sc)
    # a server close frame ends the run whatever its status code (1012 "service restart", 1013 "try again later" included)
    for code in (1001, 1011, 1012, 1013, 3000, 4999):
        for disp in (None, "ext"):
            n += 1
            run = {"reconnect": 2}
            if disp:
                run["dispatcher"] = disp
            out.append({"tid": "rec%d" % n, "conns": [{"events": [(100, ("text", "z")), (50, ("close", code, b"bye"))]}, {"events": [(50, ("close", 1000, b""))]}],
                        "run": run, "horizon": 200000})
    # the interval given through websocket.setReconnect() instead of the argument
    for s_ in [x for x in seqs if len(x) <= 2][:40]:
        for disp in (None, "ext"):
            n += 1
            run = {"dispatcher": disp} if disp else {}
            if "ptimeout" in s_:
                run.update({"ping_interval": 5, "ping_timeout": 2})
            sc = {"tid": "rec%d" % n, "conns": [dict(outcomes[x]) for x in s_] + [{"events": [(100, ("text", "final")), (100, ("close", 1000, b""))]}],
                  "run": run, "global_reconnect": 2, "horizon": 200000}
            if s_[-1] == "ok_long":
                sc["user"] = [(len(s_) * 20000 + 7, "close")]
            out.append(sc)
    # a server close frame whose reason is not UTF-8 while validation is skipped ends the run like any close frame
    for reason in (b"\xff\xfe", b"\xe2\x82"):
        for disp in (None, "ext"):
            for first in ("eof", None):
                n += 1
                run = {"reconnect": 2, "skip_utf8_validation": True}
                if disp:
                    run["dispatcher"] = disp
                conns = ([dict(outcomes[first])] if first else []) + [{"events": [(50, ("text", "m")), (50, ("close", 1001, reason))]},
                                                                      {"events": [(50, ("close", 1000, b""))]}]
                out.append({"tid": "rec%d" % n, "conns": conns, "run": run, "horizon": 200000})
    # external dispatcher: a connection given up for a ping timeout whose server then drops it during the reconnect wait -
    # one loss, one new attempt
    for R in (3, 1):
        for drop in ("eof", "reset"):
            n += 1
            conns = [{"events": [(50, ("text", "t")), (14500, (drop,))], "pong": None}, {"events": [(100, ("text", "again"))], "pong": 0},
                     {"events": [(100, ("close", 1000, b""))]}]
            out.append({"tid": "rec%d" % n, "conns": conns, "run": {"reconnect": R, "dispatcher": "ext", "ping_interval": 5, "ping_timeout": 2},
                        "user": [(40000, "close")], "horizon": 200000, "pattern": "stale_drop_during_wait"})
    # user close at many points of a lossy history, including inside the reconnect wait
    base = [dict(outcomes["eof"]), dict(outcomes["refused"]), dict(outcomes["ok_long"])]
    for R in (1, 3):
        for t in [0, 50, 150, 200, 201, 700, 1199, 1200, 1201, 2000, 2199, 2200, 2300, 3200, 3500, 4200, 6500, 9000]:
            for disp in (None, "ext"):
                n += 1
                run = {"reconnect": R}
                if disp:
                    run["dispatcher"] = disp
                out.append({"tid": "rec%d" % n, "conns": [dict(c) for c in base], "run": run, "user": [(t, "close")], "horizon": 100000})
    return out


def fam_keepalive(rng, tier):
    """C16: (interval, timeout) grid, pong latency patterns below and above the timeout, peers that stop
    answering after the k-th ping, concurrent data traffic, inconsistent settings."""
    out = []
    n = 0
    grid = [(i, t) for t in (1, 2, 3, 4) for i in range(1, 10)] if tier == "thorough" else \
        [(i, t) for t in (1, 2, 3) for i in (1, 2, 3, 4, 5, 6, 7, 9)]
    grid += [(25, 10), (11, 10), (30, 7)]
    grid += [(0.6, 0.25), (0.5, 0.2), (1.5, 0.5), (1, 0.4)]        # sub-second settings are pairs like any other
    for I, T in grid:
        ok = I > T
        pats = []
        if not ok:
            pats = [("invalid", None, [])]
        else:
            pats.append(("never", None, []))
            for k in (1, 2, 3):
                pats.append(("stop%d" % k, {"stop_after": k, "latency": min(500, T * 500)}, []))
            pats.append(("fast", 0, []))
            # (exactly T: representable only for whole seconds - 4.4 - 4.0 > 0.4 in floating point)
            pats.append(("edge", T * 1000 if T == int(T) else T * 1000 - 1, []))
            pats.append(("half", T * 500, []))
            pats.append(("late", T * 1000 + 500, []))
            pats.append(("mixed", [T * 500, T * 1000 if T == int(T) else T * 1000 - 1, 0, T * 1000 + 1, T * 200], []))
        for pname, pong, _ in pats:
            for traffic in (False, True):
                if traffic and (not ok or (tier == "quick" and rng.random() < 0.5)):
                    continue
                ev = []
                if traffic:
                    ev = [(rng.choice([100, I * 500, I * 1000, T * 1000 - 1, T * 1000 + 1]), rng.choice([("text", "d"), ("ping", b""), ("binary", b"\x09")]))
                          for _ in range(rng.randrange(3, 14))]
                n += 1
                out.append({"tid": "ka%d" % n, "conns": [{"events": ev, "pong": pong}], "run": {"ping_interval": I, "ping_timeout": T,
                            "ping_payload": rng.choice(["", "beat"])}, "horizon": (8 * I + 6 * T) * 1000, "pattern": pname})
    # a writing thread that is held up after its bytes left (1 ms, 400 ms): the pong can be processed before the
    # ping thread runs again - a responsive peer must still never be reported
    for I, T in ((3, 1), (2, 1), (5, 2), (4, 3)):
        for lat in (0, 1, T * 1000 - 2):
            for delay in (1, 7):
                n += 1
                out.append({"tid": "ka%d" % n, "conns": [{"events": [], "pong": lat}], "run": {"ping_interval": I, "ping_timeout": T},
                            "horizon": (6 * I + 3 * T) * 1000, "send_delay_ms": delay, "pattern": "late_send_return"})
    # a fragmented message whose parts arrive far apart: pings fall between the fragments and are answered promptly
    for I, T in ((3, 1), (4, 2), (5, 2), (7, 3)):
        for lat in (0, 300, T * 1000 - 1):
            for first_at in (I * 1000 - 500, 2 * I * 1000 - 1, 2 * I * 1000 + 1):
                n += 1
                ev = [(first_at, ("part", 1, "he", 0)), (3 * I * 1000 + 700, ("part", 0, "llo", 0)), (2 * I * 1000, ("part", 0, "!", 1))]
                out.append({"tid": "ka%d" % n, "conns": [{"events": ev, "pong": lat}], "run": {"ping_interval": I, "ping_timeout": T},
                            "horizon": (9 * I + 3 * T) * 1000, "pattern": "pings_between_fragments"})
    # a peer that falls silent in the middle of a frame (one byte of a header, half a payload): still a silent peer
    for I, T in ((3, 1), (5, 2), (4, 3)):
        for part in (b"\x81", b"\x82\x05ab", b"\x89"):
            for k in (0, 1):
                n += 1
                # (the k-th ping goes out at (k + 1) * I; the partial frame follows it, nothing can follow a partial frame)
                out.append({"tid": "ka%d" % n, "conns": [{"events": [(I * 1000 * (k + 1) + 500, ("partial", part))], "pong": {"stop_after": k, "latency": 0}}],
                            "run": {"ping_interval": I, "ping_timeout": T}, "horizon": (8 * I + 6 * T) * 1000, "pattern": "silent_mid_frame"})
    # a peer that answers no ping but keeps sending the non-final fragments of a message that never ends
    for I, T in ((3, 1), (5, 2)):
        n += 1
        ev = [(I * 1000 + 200, ("part", 1, "x", 0))] + [(300, ("part", 0, "y", 0)) for _ in range(int((8 * I + 6 * T) * 1000 / 300))]
        out.append({"tid": "ka%d" % n, "conns": [{"events": ev, "pong": None}], "run": {"ping_interval": I, "ping_timeout": T},
                    "horizon": (8 * I + 6 * T) * 1000, "pattern": "endless_fragments"})
    # the same silence inside a frame on a transport the application prepared itself with a long timeout of its own
    for I, T in ((3, 1), (5, 2)):
        for pst in (30, 600):
            n += 1
            out.append({"tid": "ka%d" % n, "conns": [{"events": [(I * 1000 + 500, ("partial", b"\x82\x05ab"))], "pong": {"stop_after": 0, "latency": 0}}],
                        "run": {"ping_interval": I, "ping_timeout": T}, "prepared_socket_timeout": pst, "horizon": (8 * I + 6 * T) * 1000,
                        "pattern": "silent_mid_frame_prepared"})
    # a responsive peer whose frames arrive slowly: the two halves of a frame further apart than the timeout, between two
    # pings that are both answered at once - never reported, the message is delivered when it is complete
    for I, T in ((5, 2), (7, 3), (4, 1)):
        for k in (1, 2, 5):
            for first_at in (I * 1000 + 300, 2 * I * 1000 + 200):
                n += 1
                gap = (T + 1) * 1000
                out.append({"tid": "ka%d" % n, "conns": [{"events": [(first_at, ("split", ("text", "slowly"), k, gap)), (3 * I * 1000, ("text", "after"))], "pong": 0}],
                            "run": {"ping_interval": I, "ping_timeout": T}, "horizon": (8 * I + 6 * T) * 1000, "pattern": "slow_frame"})
    # interval without timeout: pings only; settings that must be refused
    for I in (1, 3):
        n += 1
        out.append({"tid": "ka%d" % n, "conns": [{"events": [(I * 4500, ("close", 1000, b""))], "pong": 0}], "run": {"ping_interval": I, "ping_payload": "x"},
                    "horizon": 60000})
    for run in ({"ping_timeout": 0}, {"ping_timeout": -1}, {"ping_interval": -1}, {"ping_interval": 2, "ping_timeout": 2}, {"ping_interval": 1, "ping_timeout": 5}):
        n += 1
        out.append({"tid": "ka%d" % n, "conns": [{"events": [(10, ("close", 1000, b""))]}], "run": run, "horizon": 60000})
    return out


def phase_of(trace):
    """where the run was when the application's close() came in (observable events only)"""
    seen_open = False
    established = False
    for e in trace:
        if e["ev"] == "dial" and e.get("outcome") == "established":
            established = True
        if e["ev"] == "cb" and e.get("name") in ("open", "reconnect"):
            seen_open = True
        if e["ev"] == "app_close":
            return "running" if seen_open else ("handshake_done" if established else "connecting")
    return "no_close"


LP_BASES = [
    {"conns": [{"events": [[100, ["text", "m"]], [5000, ["close", 1000, []]]]}], "run": {}},
    {"conns": [{"events": [[100, ["frag", 1, ["a", "b"]]], [100, ["ping", []]]], "pong": 100}], "run": {"ping_interval": 3, "ping_timeout": 1}, "horizon": 20000},
    {"conns": [{"events": [[100, ["eof"]]]}, {"events": [[100, ["text", "again"]], [3000, ["close", 1000, []]]]}], "run": {"reconnect": 1}, "horizon": 20000},
]


def fam_line_preempt(rng, tier):
    """C14: close() from a second thread preempting the main thread at (every n-th) source line of
    the library (sys.settrace), the user thread then runs until it blocks or finishes."""
    out = []
    n = 0
    step = 11 if tier == "quick" else 1
    for bi, base in enumerate(LP_BASES):
        log, _ = appworld.run_app(dict(base, line_preempt=10 ** 9))
        total = [e for e in log if e["ev"] == "lines_total"][0]["n"]
        for k in range(1 + (rng.randrange(step) if step > 1 else 0), total + 1, step):
            n += 1
            out.append(dict(base, tid="lp%d_%d" % (bi, k), line_preempt=k, kind="line_preempt"))
    return out


def fam_keepalive_schedules(rng, tier):
    """C16: interleavings of the ping thread with the reading loop, enumerated systematically at the
    blocking primitives (preemption bound 1, thorough 2) for responsive and for silent peers."""
    from .. import explore
    out = []
    bases = [
        {"conns": [{"events": [], "pong": 0}], "run": {"ping_interval": 3, "ping_timeout": 1}, "horizon": 10500},
        {"conns": [{"events": [[6000, ["text", "d"]]], "pong": 1000}], "run": {"ping_interval": 3, "ping_timeout": 2}, "horizon": 10500},
        {"conns": [{"events": [], "pong": {"stop_after": 1, "latency": 0}}], "run": {"ping_interval": 3, "ping_timeout": 1}, "horizon": 16000},
    ]
    for bi, base in enumerate(bases):
        k = 0
        for prefix, _, choices in explore.explore(lambda s, base=base: (None, appworld.run_app(dict(base), schedule=s)[1].choices),
                                                  bound=1 if tier == "quick" else 2, max_runs=120 if tier == "quick" else 1500):
            k += 1
            out.append(dict(base, tid="kas%d_%d" % (bi, k), schedule=list(prefix), kind="schedule"))
    return out


def fam_keepalive_line_preempt(rng, tier):
    """C16: the ping thread preempting the reading loop at every source line of check() (the function that compares the
    ping / pong stamps), at instants where a ping is due exactly when traffic makes the loop run check()."""
    out = []
    bases = []
    for I, T, lat in ((3, 1, 0), (3, 1, 500), (4, 2, 1000), (2, 1, 0)):
        # a data frame at exactly the time of the 2nd / 3rd ping: the loop wakes up and runs check() while the ping is due
        for k in (2, 3):
            bases.append({"conns": [{"events": [[k * I * 1000, ["text", "d"]], [I * 1000, ["binary", [1]]]], "pong": lat}],
                          "run": {"ping_interval": I, "ping_timeout": T}, "horizon": (k + 3) * I * 1000 + 500,
                          "line_preempt_to": "ping", "lp_func": "check"})
    for bi, base in enumerate(bases):
        log, _ = appworld.run_app(dict(base, line_preempt=10 ** 9))
        total = [e for e in log if e["ev"] == "lines_total"][0]["n"]
        for k in range(1, total + 1):
            out.append(dict(base, tid="klp%d_%d" % (bi, k), line_preempt=k, kind="line_preempt_ping"))
    return out


FAMILIES = {"C13": [("delivery", fam_delivery), ("redirected_delivery", fam_redirected_delivery)], "C14": [("endings", fam_endings), ("line_preemption", fam_line_preempt)], "C15": [("reconnect", fam_reconnect), ("line_preemption_reconnect", lambda rng, tier: [x for x in fam_line_preempt(rng, tier) if x["tid"].startswith("lp2_")])],
            "C16": [("keepalive", fam_keepalive), ("ping_thread_interleavings", fam_keepalive_schedules),
                    ("ping_thread_preempts_check", fam_keepalive_line_preempt)]}


# clauses of another property that count for the check of property X in X's own families (the loss of a silent peer
# has to be noticed before it can be followed by a new attempt)
APP_CROSS = {"C15": {"C16.silent_peer_not_reported_within_two_timeouts",
                     # the keepalive of a connection that was lost goes on into the next one
                     "C16.pings_not_periodic", "C16.ping_after_the_connection_ended"},
             # a run ended by a timeout nobody caused ends with the wrong on_close arguments and return value
             # ... and a run that can only end through the keepalive (silent peer) has to end through it
             "C14": {"C16.responsive_peer_reported_as_timed_out", "C16.pings_not_sent_while_connection_up",
                     "C16.silent_peer_not_reported_within_two_timeouts"}}


def fam_common(rng, tier):
    out = []
    for fn in (fam_delivery, fam_endings, fam_reconnect, fam_keepalive):
        scs = fn(random.Random(rng.random()), "quick")
        rng.shuffle(scs)
        out += scs[:60]
    for i, sc in enumerate(out):
        sc["tid"] = "com%d" % i
    return out


def run_extra(ctx, pid, fam, tag, cross):
    """an application-level family for a property that is otherwise checked below the application (C03, C06)"""
    rng = random.Random(ctx.seed * 7001 + int(pid[1:]) * 31)
    judge(ctx, pid, validate(ctx, pid, [jsonable(sc) for sc in fam(rng, ctx.tier)], tag), cross=cross)
    ctx.trusted += ["deterministic scheduler and virtual time vf/schedworld.py", "scripted servers vf/appworld.py"]


def jsonable(x):
    if isinstance(x, (bytes, bytearray)):
        return list(x)
    if isinstance(x, (list, tuple)):
        return [jsonable(y) for y in x]
    if isinstance(x, dict):
        return {k: jsonable(v) for k, v in x.items()}
    return x


def run_for(ctx, pid):
    rng = random.Random(ctx.seed * 7001 + int(pid[1:]))
    from . import app_mc
    app_mc.model_check(ctx, pid)
    for tag, fn in FAMILIES[pid] + [("common_pool", fam_common)]:
        judge(ctx, pid, validate(ctx, pid, [jsonable(sc) for sc in fn(rng, ctx.tier)], tag), cross=APP_CROSS.get(pid, ()))
    negative_controls(ctx, pid)
    ctx.trusted += ["TLC 1.8", "deterministic scheduler and virtual time vf/schedworld.py", "scripted servers vf/appworld.py"]
    ctx.assumptions += ["time is virtual: processing takes no time, so 'prompt' means the same millisecond"]


def negative_controls(ctx, pid):
    import copy
    sc = {"tid": "n", "conns": [{"events": [(10, ("text", "a")), (10, ("ping", b"p")), (10, ("close", 1000, b"r"))]}], "run": {}}
    log, _ = appworld.run_app(sc)
    base = approj.project(log, sc, "n")

    def clone(tid):
        t = copy.deepcopy(base)
        for e in t:
            e["tid"] = tid
        return t
    vs = []
    t = clone("neg_dup")
    i = next(k for k, e in enumerate(t) if e["ev"] == "cb" and e["name"] == "message")
    t.insert(i + 1, copy.deepcopy(t[i]))
    vs.append(t)
    t = clone("neg_late")
    next(e for e in t if e["ev"] == "cb" and e["name"] == "ping")["t"] += 1
    vs.append(t)
    t = clone("neg_close2")
    i = next(k for k, e in enumerate(t) if e["ev"] == "cb" and e["name"] == "close")
    t.insert(i + 1, copy.deepcopy(t[i]))
    vs.append(t)
    t = clone("neg_ret")
    e = next(e for e in t if e["ev"] == "run_ret")
    e["value"] = not e["value"]
    vs.append(t)
    vs.append(clone("pos"))
    d = tlc.scratch("%s_neg_in" % pid.lower())
    path = os.path.join(d, "neg.ndjson")
    with open(path, "w") as f:
        for t in vs:
            for i, e in enumerate(t):
                e["i"] = i
                f.write(json.dumps(e) + "\n")
    _, r = _shard((0, path, "%s_neg" % pid.lower()))
    v = tlc.emitted(r, "VERDICT")[0]
    rej = {b["tid"]: b["why"] for b in v["bad"]}
    ctx.notes["negative_controls"] = {"rejected": rej, "accepted": v["accepted"]}
    if set(rej) != {"neg_dup", "neg_late", "neg_close2", "neg_ret"} or v["accepted"] != 1:
        ctx.machinery_error = "App negative controls: %s accepted=%d" % (rej, v["accepted"])


def replay(ctx, pid, path):
    c = json.load(open(path))["case"]
    sc = dict(c["scenario"], tid=c.get("tid", "replay"))
    log, _ = appworld.run_app(sc, schedule=sc.get("schedule"), seed=sc.get("sched_seed"))
    for e in approj.project(log, sc, "replay"):
        print({k: v for k, v in e.items() if k != "tid"})
    judge(ctx, pid, validate(ctx, pid, [sc], "replay"))
    return ctx.finish()


def fix_items(conn):
    """JSON round trip turns tuples into lists and bytes into reprs; rebuild"""
    return conn
