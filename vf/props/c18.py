"""C18 - the URL alone determines target, port, resource and TLS; all addresses are tried.
spec/Target.tla: TLC enumerates the URL component product and renders each URL with the expected
target (TargetMC); the real parse_url / connect() are run on each and the results judged by TLC
(TargetBatch).  The dial loop is model-checked as a step machine and every outcome list of length
1..4 is executed against the real code on the simulated network."""
import itertools
import json
import os
import random

from .. import tlc
from ..networld import World
from .conn_common import HeadPeer, OKHEAD


def run_target_mc(ctx, emit=True, tag="c18_targetmc"):
    invs = ["DialConsistent", "AtMostOneOpen", "NoLeak", "RefusedNeverAborts", "StopsAtFirstOk"]
    cfg = "INIT Init\nNEXT Next\nCONSTANTS\n MaxAddrs = %d\n EmitUrls = %s\n" % (4 if ctx.tier == "quick" else 5, "TRUE" if emit else "FALSE") \
        + "".join("INVARIANT %s\n" % i for i in invs)
    r = tlc.run("TargetMC", cfg, tag, timeout=1800)
    ctx.add_tlc(r, "TargetMC: dial loop machine (all outcome lists), exemption definitions cross-checked, URL scenarios emitted")
    if r.violated:
        ctx.machinery_error = "TargetMC violated %s" % r.violated
    return tlc.emitted(r, "U")


def url_events(ctx, scen, rng):
    import websocket
    from websocket._url import parse_url
    ev = []
    for k, u in enumerate(scen):
        c, url = u["c"], u["url"]
        try:
            host, port, resource, secure = parse_url(url)
            got = {"kind": "ok", "host": str(host).lower(), "port": int(port), "resource": str(resource), "secure": bool(secure),
                   "network": False}
        except ValueError:
            got = {"kind": "ValueError", "host": "", "port": 0, "resource": "", "secure": False, "network": False}
        except Exception as e:
            got = {"kind": type(e).__name__, "host": "", "port": 0, "resource": "", "secure": False, "network": False}
        ev.append({"ev": "url", "c": c, "url": url, "via": "parse_url", "got": got})
        # the same through the real connect(): what is resolved, what is requested, whether TLS wraps
        valid = u["exp"]["valid"]
        if valid or k % 3 == 0 or ctx.tier == "thorough":
            peers = []

            def factory(world, sock, address):
                p = HeadPeer(world, dict(OKHEAD), None)
                peers.append(p)
                return p
            # on a fresh object, and on one that has already been through a complete conversation with another server
            for reused in ((False, True) if (k % 2 == 0 or not valid) else (False,)):
                del peers[:]
                w = World(resolver={"*": ["10.9.9.9"]}, peer_factory=factory, fake_tls=True)
                kind = "ok"
                with w:
                    ws = websocket.WebSocket()
                    ws.settimeout(2)
                    mark = 0
                    if reused:
                        ws.connect("ws://earlier.test:81/before")
                        ws.close(timeout=0)
                        mark = len(w.log)
                        del peers[:]
                    try:
                        ws.connect(url)
                    except ValueError:
                        kind = "ValueError"
                    except Exception as e:
                        kind = type(e).__name__
                log = w.log[mark:]
                res = [e for e in log if e["ev"] == "resolve"]
                net = any(e["ev"] in ("resolve", "tsocket", "tconnect") for e in log)
                if kind == "ok" and res and peers:
                    line = bytes(peers[0].req).split(b"\r\n")[0].decode("latin-1").split(" ")
                    got2 = {"kind": "ok", "host": res[0]["host"].lower(), "port": res[0]["port"],
                            "resource": line[1] if len(line) == 3 else "?", "secure": any(e["ev"] == "tls_wrap" for e in log),
                            "network": net}
                else:
                    got2 = {"kind": kind, "host": "", "port": 0, "resource": "", "secure": False, "network": net}
                ev.append({"ev": "url", "c": c, "url": url, "via": "connect", "got": got2, "reused": reused})
    return ev


def dial_events(ctx, rng):
    import websocket
    from websocket._socket import DEFAULT_SOCKET_OPTION
    import socket as _s
    ev = []
    maxn = 4
    lists = []
    for n in range(1, maxn + 1):
        lists += list(itertools.product(["ok", "refused", "unreachable", "other"], repeat=n))
    user_opt = (_s.SOL_SOCKET, _s.SO_RCVBUF, 4096)
    for os_ in lists:
        for useropts in ((), (user_opt,)):
            for timeout in (None, 5):
                if ctx.tier == "quick" and len(os_) == 4 and rng.random() < 0.5:
                    continue
                addrs = ["10.0.0.%d" % (i + 1) for i in range(len(os_))]
                if timeout is None and len(os_) >= 2:
                    # address lists that mix the families, IPv6 first or in between: the resolver's order is the order
                    addrs = [("fd00::%d" % (i + 1)) if (i + len(useropts)) % 2 == 0 else a for i, a in enumerate(addrs)]
                outcomes = {a: o for a, o in zip(addrs, os_)}

                def factory(world, sock, address):
                    return HeadPeer(world, dict(OKHEAD), None)
                # reused: the object has had a conversation before during which the transport's timeout was changed directly
                # (ws.sock.settimeout) - the configured timeout is still what every new socket gets
                reused = timeout is not None and len(os_) <= 2 and bool(useropts)
                w = World(resolver={"earlier.test": ["10.0.9.9"], "*": addrs}, outcomes=outcomes, peer_factory=factory)
                exc = None
                nsock0 = 0
                with w:
                    ws = websocket.WebSocket(sockopt=useropts)
                    ws.settimeout(timeout)
                    if reused:
                        ws.connect("ws://earlier.test/")
                        ws.sock.settimeout(None)
                        ws.close(timeout=0)
                        nsock0 = len(w.sockets)
                    try:
                        ws.connect("ws://multi.test/")
                    except Exception as e:
                        exc = e
                tried = []
                for s in w.sockets[nsock0:]:
                    evs = [e for e in w.log if e.get("sock") == s.id]
                    conn = [k for k, e in enumerate(evs) if e["ev"] == "tconnect"]
                    before = evs[:conn[0]] if conn else evs
                    want_t = -1 if timeout is None else timeout
                    opts = [tuple(e["opt"]) for e in before if e["ev"] == "tsetsockopt"]
                    dflt = [tuple(int(x) for x in o) for o in DEFAULT_SOCKET_OPTION]
                    addr = addrs.index(evs[conn[0]]["host"]) + 1 if conn else 0
                    tried.append({"addr": addr,
                                  "timeoutSet": any(e["ev"] == "tsettimeout" and e["value"] == want_t for e in before),
                                  "defaults": all(o in opts for o in dflt),
                                  "user": all(tuple(int(x) for x in u) in opts for u in useropts),
                                  "closed": s.closed})
                if exc is None:
                    result = {"kind": "ok", "idx": (w.sockets[nsock0:].index(ws.sock) + 1) if ws.sock in w.sockets[nsock0:] else 0}
                else:
                    idx = [i + 1 for i, s in enumerate(w.sockets[nsock0:]) if s.last_exc is exc]
                    result = {"kind": "raise", "idx": idx[0] if idx else 0, "cls": type(exc).__name__}
                ev.append({"ev": "dial", "outcomes": list(os_), "tried": tried, "result": result,
                           "timeout": -1 if timeout is None else timeout, "useropts": len(useropts)})
    # remark (not judged): EHOSTUNREACH aborts the loop in the current code
    w = World(resolver={"*": ["10.0.0.1", "10.0.0.2"]}, outcomes={"10.0.0.1": "hostunreach"},
              peer_factory=lambda wo, s, a: HeadPeer(wo, dict(OKHEAD), None))
    with w:
        ws = websocket.WebSocket()
        try:
            ws.connect("ws://multi.test/")
            ctx.remark("EHOSTUNREACH on the first address: the next address was tried")
        except Exception:
            ctx.remark("EHOSTUNREACH on the first address aborts the attempt (only ECONNREFUSED/ENETUNREACH fall through); "
                       "'unreachable' is read as ENETUNREACH (DESIGN 4.0), not judged")
    return ev


def app_default_timeout(ctx):
    """Through a reconnecting WebSocketApp: the default timeout in force when a socket is created is the one it gets - also when
    the application changes it (setdefaulttimeout) between two attempts of the same run."""
    from .. import appworld
    n = 0
    for first in ("eof", "refused"):
        for new in (5.0, 0.5):
            conn0 = {"accept": False} if first == "refused" else {"events": [(100, ("text", "a")), (100, ("eof",))]}
            sc = {"tid": "c18app", "conns": [conn0, {"events": [(100, ("close", 1000, b""))]}], "run": {"reconnect": 1},
                  "actions": {"error": ["deftimeout:%s" % new]}, "horizon": 60000}
            log, _ = appworld.run_app(sc)
            n += 1
            ctx.case(("app_default_timeout", first, new))
            ctx.traces += 1
            conns = [e for e in log if e["ev"] == "tconnect"]
            if len(conns) < 2:
                ctx.machinery_error = "C18 app scenario made %d attempts" % len(conns)
                continue
            second = conns[1]
            before = [e["value"] for e in log[:log.index(second)] if e["ev"] == "tsettimeout" and e.get("sid") == second.get("sid")]
            if new not in before:
                ctx.deviation(None, "WebSocketApp, reconnect=1, the application calls setdefaulttimeout(%s) in on_error after the first attempt (%s): "
                              "the socket of the second attempt was given the timeouts %s before connecting" % (new, first, before),
                              {"clause": "C18.timeout_not_applied_to_every_socket", "first": first, "new_default": new, "timeouts": before})
    ctx.notes["app_default_timeout"] = n


def judge_batch(ctx, pid, ev, tag):
    d = tlc.scratch("%s_%s_in" % (pid.lower(), tag))
    path = os.path.join(d, "ev.ndjson")
    tlc.write_ndjson(path, ev)
    r = tlc.run("TargetBatch", "INIT Init\nNEXT Next\n", "%s_%s" % (pid.lower(), tag), env={"TRACE_FILE": path}, workers=1, timeout=3000)
    ctx.add_tlc(r, "TargetBatch over %s events" % tag)
    v = tlc.emitted(r, "BAD")[0]
    assert v["n"] == len(ev)
    ctx.traces += len(ev)
    out = []
    for i, faults in v["bad"]:
        out.append((ev[i - 1], faults))
    return out


def main(ctx):
    rng = random.Random(ctx.seed * 13 + 18)
    scen = run_target_mc(ctx)
    if ctx.tier == "quick":
        # every malformed class once per (scheme, sep, host kind) + all well-formed ones
        keep = []
        seen = set()
        for u in scen:
            c = u["c"]
            key = (c["scheme"], c["sep"], c["host"]["kind"], c["userinfo"])
            if u["exp"]["valid"] or key not in seen or rng.random() < 0.05:
                seen.add(key)
                keep.append(u)
        scen = keep
    ev = url_events(ctx, scen, rng)
    for e, faults in judge_batch(ctx, "C18", ev, "urls"):
        ctx.deviation(None, "URL %r via %s%s: %s; got %s" % (e["url"], e["via"], " (object used before)" if e.get("reused") else "", faults, e["got"]), {"event": e, "faults": faults})
    for e in ev:
        ctx.case(("url", e["url"], e["via"], e.get("reused", False)))
    dv = dial_events(ctx, rng)
    for e, faults in judge_batch(ctx, "C18", dv, "dials"):
        ctx.deviation(None, "dial with outcomes %s: %s; tried=%s result=%s" % (e["outcomes"], faults, e["tried"], e["result"]),
                      {"event": e, "faults": faults})
    for e in dv:
        ctx.case(("dial", tuple(e["outcomes"]), e["timeout"], e["useropts"]))
    app_default_timeout(ctx)
    ctx.sample(ev[len(ev) // 2])
    ctx.sample(dv[len(dv) // 2])
    ctx.notes["urls"] = len(ev)
    ctx.notes["dials"] = len(dv)
    # negative controls
    neg = [json.loads(json.dumps(next(e for e in ev if e["got"]["kind"] == "ok"))), json.loads(json.dumps(next(e for e in dv if len(e["outcomes"]) > 1 and e["outcomes"][0] == "refused")))]
    neg[0]["got"]["port"] += 1
    neg[1]["tried"] = neg[1]["tried"][:1]
    bad = judge_batch(ctx, "C18", neg, "neg")
    ctx.traces -= 2
    if len(bad) != 2:
        ctx.machinery_error = "C18 negative controls not rejected: %s" % bad
    ctx.notes["negative_controls"] = [sorted(f) for _, f in bad]
    ctx.exhaustive = ctx.tier == "thorough"
    ctx.trusted += ["TLC 1.8", "vf/networld.py (resolver, sockets, connect outcomes)"]
    ctx.assumptions += ["'unreachable' = ENETUNREACH; hosts compared case-insensitively; ports 1..65535"]


def replay(ctx, path):
    c = json.load(open(path))["case"]
    print(json.dumps(c, indent=1)[:3000])
    return 0
