"""C12 - each send puts one intact frame on the wire under partial writes and threads; every
incoming message is delivered intact to exactly one receiver.
spec/Send.tla (monitor SStep), SendMC (lock model, with the no-lock and resend-bug variants that must
fail), TraceSend (schedules of the real library under the deterministic scheduler)."""
import concurrent.futures as cf
import itertools
import json
import os
import random

from .. import explore, schedworld, tlc, wire


class PipeNet:
    fake_tls = False

    def __init__(self, sched):
        self.sched = sched
        self.sockets = []
        self.wire = bytearray()
        self.last_exc = None

    def new_conn(self, sock, addr):
        return 0

    def accepts(self, cid):
        return True

    def on_connect(self, sock):
        pass

    def client_wrote(self, sock, data):
        self.wire += data

    def resolve(self, host, port):
        raise OSError("no resolver in this world")

    def ev(self, name, **kw):
        self.sched.ev(name, **kw)


def run_once(sc, schedule, seed=None, line_preempt=None, back=False):
    """sc: senders (list of payload bytes), write_caps, receivers (int), stream (bytes), read_cap.
    Returns (events for TraceSend, choices)."""
    import websocket
    sched = schedworld.Sched(schedule=schedule, seed=seed)
    net = PipeNet(sched)
    undo = schedworld.install(sched, net)
    out = {"ret": {}, "rret": []}
    trig = {"n": 0, "fired": False}
    if line_preempt is not None:
        import websocket as _w
        libdir = os.path.dirname(_w.__file__)

        def tracer(frame, event, arg):
            if not frame.f_code.co_filename.startswith(libdir):
                return None
            c = sched.cur()
            if c is None or c.name == "main":
                return None

            def local(frame, event, arg):
                if event == "line":
                    trig["n"] += 1
                    if trig["n"] == line_preempt and not trig["fired"]:
                        trig["fired"] = True
                        me = sched.cur()
                        others = [t for t in sched.runnable() if t is not me and t.name != "main"]
                        if others:
                            sched.ev("preempt", func=frame.f_code.co_name, line=frame.f_lineno)
                            # the other thread runs; with back=True only up to its next blocking primitive (a transport
                            # write / read), then the preempted thread goes on while the other one is in mid-operation
                            sched.schedule = [others[0].name] + ([me.name] if back else [])
                            sched.yield_("preempt")
                return local
            return local
        sched.tracer = tracer
    try:
        disp = None
        if sc.get("dispatcher"):
            # the way WebSocketApp builds its connection: writes go through DispatcherBase.send
            import types as _types
            from websocket._dispatcher import Dispatcher, SSLDispatcher
            disp = (SSLDispatcher if sc["dispatcher"] == "ssl" else Dispatcher)(_types.SimpleNamespace(sock=None), 5)
        ws = websocket.WebSocket(enable_multithread=True, dispatcher=disp)
        sock = schedworld.SSocket(net)
        sock.cid = 0
        sock.write_caps = sc.get("write_caps")
        sock.read_cap = sc.get("read_cap")
        sock.to = sc.get("sock_timeout", 5)
        sock.buf += bytes(sc.get("stream", b""))
        ws.sock = sock
        ws.connected = True
        nrecv_msgs = sc.get("recv_calls", 0)
        state = {"taken": 0}

        def sender(i, payload):
            def f():
                raw = payload.encode("latin-1") if isinstance(payload, str) else bytes(payload)
                sched.ev("call", api="send", payload=list(raw))
                try:
                    if sc.get("send_api") == "ping":
                        ws.ping(payload)
                        v = 0
                    elif sc.get("send_api") == "pong":
                        ws.pong(payload)
                        v = 0
                    else:
                        v = ws.send_binary(payload)
                    sched.ev("ret", value=int(v))
                except Exception as e:     # noqa
                    sched.ev("raise", cls=type(e).__name__)
            return f

        def receiver(i):
            def f():
                while state["taken"] < nrecv_msgs:
                    state["taken"] += 1
                    try:
                        if sc.get("recv_api") == "recv_data":
                            op, data = ws.recv_data()
                            v = data.decode("utf-8") if op == 1 else bytes(data)
                        elif sc.get("recv_api") == "next":
                            # the iteration API (next(ws), "for message in ws") is a way of calling recv()
                            v = next(ws) if i % 2 == 0 else ws.next()
                        else:
                            v = ws.recv()
                    except Exception as e:     # noqa
                        sched.ev("rraise", cls=type(e).__name__)
                        return
                    if isinstance(v, str):
                        sched.ev("rret", op=1, data=list(v.encode("utf-8")))
                    else:
                        sched.ev("rret", op=2, data=list(v))
            return f

        def main():
            ths = []
            for i, p in enumerate(sc.get("senders", [])):
                ths.append(sched.spawn(sender(i, p), "s%d" % (i + 1)))
            for i in range(sc.get("receivers", 0)):
                ths.append(sched.spawn(receiver(i), "r%d" % (i + 1)))
            sched.block(lambda: all(t.done for t in ths), 1000, what="join all")
            if sc.get("after_recv_data"):
                # afterwards one more message is read with recv_data() by the main thread
                try:
                    op, d = ws.recv_data()
                    sched.ev("final", kind="ret", op=int(op), data=list(bytes(d) if not isinstance(d, str) else d.encode()))
                except Exception as e:      # noqa
                    sched.ev("final", kind="raise", cls=type(e).__name__)
        sched.run(main, "main", wall=30)
    finally:
        undo()
    names = ["s%d" % (i + 1) for i in range(len(sc.get("senders", [])))] + ["r%d" % (i + 1) for i in range(sc.get("receivers", 0))]
    ev = [{"ev": "begin", "threads": names, "stream": list(sc.get("stream", b""))}]
    pings = [f for f in wire_frames(sc.get("stream", b"")) if f["op"] == 9]
    for p in pings:
        ev.append({"ev": "ping", "payload": list(p["payload"])})
    rdone = 0
    for e in sched.log:
        if e["ev"] == "call":
            ev.append({"ev": "call", "th": e["th"], "payload": e["payload"]})
        elif e["ev"] == "tsend":
            ev.append({"ev": "tsend", "th": e["th"], "offered": e["offered"], "offered_len": e["offered_len"], "accepted": e["accepted"]})
        elif e["ev"] == "ret":
            ev.append({"ev": "ret", "th": e["th"], "value": e["value"]})
        elif e["ev"] == "raise":
            ev.append({"ev": "raise", "th": e["th"], "cls": e["cls"]})
        elif e["ev"] == "rret":
            rdone += 1
            ev.append({"ev": "rret", "th": e["th"], "op": e["op"], "data": e["data"]})
        elif e["ev"] == "rraise":
            ev.append({"ev": "raise", "th": e["th"], "cls": e["cls"]})
        elif e["ev"] == "deadlock":
            ev.append({"ev": "deadlock"})
        elif e["ev"] == "final":
            out["final"] = {k: v for k, v in e.items() if k in ("kind", "op", "data", "cls")}
    # harness decoder over the complete wire (content of frames larger than the recorded 300 bytes)
    try:
        frames = wire.decode_client_frames(bytes(net.wire))
        want_op = {"ping": 9, "pong": 10}.get(sc.get("send_api"), 2)
        datas = sorted(f["payload"] for f in frames if f["op"] == want_op and not (want_op == 10 and f["payload"] in [p["payload"] for p in pings]))
        wire_ok = datas == sorted((p.encode("latin-1") if isinstance(p, str) else bytes(p)) for p in sc.get("senders", [])) \
            and all(f["masked"] and f["fin"] for f in frames)
    except Exception:
        wire_ok = False
    if line_preempt is not None:
        ev[0]["lines"] = trig["n"]
    if "final" in out:
        ev[0]["final"] = out["final"]
    ev.append({"ev": "end", "receivers_done": rdone >= nrecv_msgs and nrecv_msgs > 0 or sc.get("receivers", 0) == 0, "wireOk": wire_ok})
    return ev, sched.choices


def wire_frames(stream):
    try:
        return wire.decode_client_frames(bytes(stream))
    except Exception:
        return []


def scenarios(rng, tier):
    scs = []
    # senders only: 2-3 senders, small frames, every short-write cap pattern of small period
    for ns in (2, 3):
        payloads = [bytes([i + 1] * (i + 1)) for i in range(ns)]
        for caps in ([1], [2], [3], [1, 5], [4, 1], [7], None):
            scs.append(dict(name="send%d_caps%s" % (ns, caps), senders=payloads, write_caps=caps, bound=2 if ns == 2 else 1,
                            max_runs=400 if tier == "quick" else 4000))
    # the same through a dispatcher object (the connection of a WebSocketApp)
    for kind in ("plain", "ssl"):
        for caps in ([1], [3], [4, 1], None):
            scs.append(dict(name="disp_%s_send2_caps%s" % (kind, caps), senders=[b"\x01", b"\x02\x02"], write_caps=caps, bound=1, dispatcher=kind,
                            max_runs=150 if tier == "quick" else 2000))
    # all compositions of a 7-byte frame as cap sequences (1 sender: partial writes alone)
    frame_len = 7
    comps = []
    for k in range(1, frame_len + 1):
        for cuts in itertools.combinations(range(1, frame_len), k - 1):
            pts = (0,) + cuts + (frame_len,)
            comps.append([pts[i + 1] - pts[i] for i in range(k)])
    for c in comps if tier == "thorough" else rng.sample(comps, 16):
        scs.append(dict(name="compose%s" % c, senders=[b"\x09"], write_caps=c, bound=0, max_runs=1))
    # large frames, sampled short-write patterns, 2 senders
    for n in ((70000, 200000) if tier == "thorough" else (70000,)):
        for caps in ([4096], [1, 65536], [30000, 7]):
            scs.append(dict(name="big%d_%s" % (n, caps), senders=[bytes([7]) * n, bytes([8]) * (n // 2)], write_caps=caps, bound=1,
                            max_runs=6 if tier == "quick" else 40))
    # receivers: 3 messages, one fragmented with a ping inside; 2 receivers; chunked reads; plus a sender
    stream = (wire.sframe(1, b"one") + wire.sframe(2, b"\x01\x02", 0) + wire.sframe(9, b"pp") + wire.sframe(0, b"\x03", 1)
              + wire.sframe(1, "zwei".encode()))
    for rc in (None, 1, 3):
        scs.append(dict(name="recv2_cap%s" % rc, receivers=2, stream=stream, recv_calls=3, read_cap=rc, senders=[],
                        bound=2, max_runs=300 if tier == "quick" else 3000))
        scs.append(dict(name="recv2_send1_cap%s" % rc, receivers=2, stream=stream, recv_calls=3, read_cap=rc, senders=[b"\x05\x05"],
                        write_caps=[2], bound=1, max_runs=300 if tier == "quick" else 3000))
    for rc in (1, 2):
        scs.append(dict(name="recvdata2_cap%s" % rc, receivers=2, stream=stream, recv_calls=3, read_cap=rc, senders=[], recv_api="recv_data",
                        bound=2, max_runs=400 if tier == "quick" else 4000))
    # one preemption at (every n-th) source line of the library inside the receiving / sending threads
    two = wire.sframe(1, b"m1") + wire.sframe(1, b"m2") + wire.sframe(2, b"\x01", 0) + wire.sframe(0, b"\x02", 1)
    scs.append(dict(name="recv2_lines", receivers=2, stream=two, recv_calls=3, read_cap=None, senders=[], bound=0, max_runs=1,
                    line_level=3 if tier == "quick" else 1))
    scs.append(dict(name="next2_lines", receivers=2, stream=two, recv_calls=3, read_cap=None, senders=[], bound=0, max_runs=1, recv_api="next",
                    line_level=2 if tier == "quick" else 1))
    for rc in (None, 2):
        scs.append(dict(name="next2_cap%s" % rc, receivers=2, stream=stream, recv_calls=3, read_cap=rc, senders=[], recv_api="next",
                        bound=2, max_runs=150 if tier == "quick" else 3000))
    scs.append(dict(name="send2_lines", senders=[b"\x01", b"\x02\x02"], write_caps=[3], bound=0, max_runs=1, line_level=1, back=True))
    # a transport without timeout (blocking mode as far as gettimeout() tells) that offers sendall()
    scs.append(dict(name="send2_notimeout", senders=[b"\x01" * 9, b"\x02\x02"], write_caps=[4], sock_timeout=None, bound=1, max_runs=80 if tier == "quick" else 800))
    # a str payload with characters beyond ASCII in a binary frame (one byte per character, as the library defines it)
    scs.append(dict(name="send2_str", senders=["caf\xe9", b"\x02\x02"], write_caps=[2], bound=1, max_runs=60 if tier == "quick" else 600))
    scs += ping_scenarios(tier)
    if tier == "thorough":
        scs.append(dict(name="send4", senders=[bytes([i + 1] * 2) for i in range(4)], write_caps=[3], bound=1, max_runs=3000))
        scs.append(dict(name="recv3", receivers=3, stream=stream, recv_calls=3, read_cap=2, senders=[], bound=2, max_runs=3000))
    return scs


def _explore_scenario(args):
    sc, seed, nrandom = args
    traces = []
    k = 0
    for prefix, ev, choices in explore.explore(lambda s: run_once(sc, s), bound=sc["bound"], max_runs=sc["max_runs"]):
        tid = "%s#%d" % (sc["name"], k)
        k += 1
        for i, e in enumerate(ev):
            e["tid"] = tid
            e["i"] = i
        traces.append((tid, prefix, ev))
    if sc.get("line_level"):
        ev0, _ = run_once(sc, [], line_preempt=10 ** 9)
        total = ev0[0].get("lines", 0)
        # back: besides "the other thread runs until it blocks", schedules in which - after the preemption - the threads are
        # switched at random at every later primitive (so that the preempted thread can go on while the other is mid-frame)
        for kline, back in [(k_, b_) for k_ in range(1, total + 1, sc["line_level"]) for b_ in ((0, 1, 2, 3) if sc.get("back") else (0,))]:
            ev, choices = run_once(sc, [], line_preempt=kline, seed=(seed * 1000 + kline * 7 + back) if back else None)
            tid = "%s#L%d%s" % (sc["name"], kline, ("r%d" % back) if back else "")
            for i, e in enumerate(ev):
                e["tid"] = tid
                e["i"] = i
            traces.append((tid, ["line", kline], ev))
    for j in range(nrandom):
        ev, choices = run_once(sc, [], seed=seed * 1000 + j)
        tid = "%s#r%d" % (sc["name"], j)
        for i, e in enumerate(ev):
            e["tid"] = tid
            e["i"] = i
        traces.append((tid, ["seed", seed * 1000 + j], ev))
    return sc["name"], traces


def validate_schedules(ctx, pid, scs, tag, own=("C12",)):
    """explores the scenarios' schedules against the real library and validates every trace with TraceSend;
    clauses of the properties in `own` are violations of `pid`"""
    jobs = [(sc, ctx.seed, 20 if ctx.tier == "quick" else 200) for sc in scs]
    all_traces = []
    with cf.ProcessPoolExecutor(12) as ex:
        for name, traces in ex.map(_explore_scenario, jobs):
            ctx.notes.setdefault("schedules", {})[name] = len(traces)
            all_traces += traces
    d = tlc.scratch("%s_in" % tag)
    shards = 8 if len(all_traces) > 400 else 1
    by_tid = {t[0]: t for t in all_traces}

    def job(k):
        path = os.path.join(d, "t%d.ndjson" % k)
        with open(path, "w") as f:
            for tid, prefix, ev in all_traces[k::shards]:
                for e in ev:
                    f.write(json.dumps(e, separators=(",", ":")) + "\n")
        return k, tlc.run("TraceSend", "SPECIFICATION TSpec\nINVARIANT TWire\nINVARIANT Report\n", "%s_v%d" % (tag, k),
                          env={"TRACE_FILE": path}, workers=1, timeout=3000, heap="3g")
    with cf.ThreadPoolExecutor(shards) as ex:
        for k, r in ex.map(job, range(shards)):
            ctx.add_tlc(r, "TraceSend shard %d" % k)
            if r.violated:
                ctx.machinery_error = "TraceSend invariant violated: %s" % r.violated
            v = tlc.emitted(r, "VERDICT")[0]
            for b in v["bad"]:
                tid, prefix, ev = by_tid[b["tid"]]
                owner = b["why"].split(".")[0]
                if owner == "harness":
                    ctx.machinery_error = "harness inconsistency %s in %s" % (b["why"], tid)
                elif owner in own or owner == pid:
                    ctx.deviation(None, "schedule %s (choices %s): event %d breaks %s" % (tid, prefix[:30], b["at"], b["why"]),
                                  {"scenario": tid.split("#")[0], "schedule": prefix, "clause": b["why"],
                                   "trace": [{k2: v2 for k2, v2 in e.items() if k2 != "offered"} for e in ev[max(0, b["at"] - 8):b["at"] + 2]]})
                else:
                    ctx.remark("clause %s failed in a %s schedule; judged by ./check %s" % (b["why"], pid, owner))
    ctx.traces += len(all_traces)
    for tid, prefix, ev in all_traces:
        ctx.case((tid.split("#")[0], tuple(prefix)), nontrivial=True)
    if len(all_traces) > 3:
        ctx.sample({"schedule": all_traces[3][0], "choices": all_traces[3][1], "events": [{k2: v2 for k2, v2 in e.items() if k2 not in ("offered", "stream")} for e in all_traces[3][2][:12]]})


def ping_scenarios(tier):
    """threads calling ping() / pong() while a receiver answers the server's pings"""
    scs = []
    pingy = wire.sframe(9, b"server-ping-1") + wire.sframe(1, b"m") + wire.sframe(9, b"sp2")
    for api in ("ping", "pong"):
        scs.append(dict(name="%s2_recv1" % api, senders=[b"own-a", b"own-bbbbbbbbbbbbbbbb"], send_api=api, receivers=1, stream=pingy, recv_calls=1,
                        write_caps=[3], bound=2, max_runs=250 if tier == "quick" else 3000))
        scs.append(dict(name="%s1_recv1_lines" % api, senders=[b"own-a"], send_api=api, receivers=1, stream=pingy, recv_calls=1, write_caps=None,
                        bound=0, max_runs=1, line_level=2 if tier == "quick" else 1))
    return scs


def main(ctx):
    rng = random.Random(ctx.seed * 211 + 12)
    # A. model checking
    base = 'SPECIFICATION Spec\nCONSTANTS\n Threads = %s\n UseLock = %s\n MaxCap = 9\n ResendBug = %s\n'
    invs = "INVARIANT MonitorOk\nINVARIANT WireIsWholeFrames\nINVARIANT MutualExclusion\nINVARIANT AllSent\nINVARIANT NoDeadlockState\nPROPERTY Termination\n"
    r = tlc.run("SendMC", base % ('{"s1","s2","s3"}', "TRUE", "FALSE") + invs, "c12_sendmc", timeout=1800)
    ctx.add_tlc(r, "SendMC: 3 senders, all short-write patterns, send lock (incl. liveness Termination)")
    if r.violated:
        ctx.machinery_error = "SendMC violated %s" % r.violated
    r1 = tlc.run("SendMC", base % ('{"s1","s2"}', "FALSE", "FALSE") + invs, "c12_sendmc_nolock", timeout=600)
    r2 = tlc.run("SendMC", base % ('{"s1","s2"}', "TRUE", "TRUE") + invs, "c12_sendmc_resend", timeout=600)
    ctx.notes["model_sees_bugs"] = {"no_lock": r1.violated, "resend_bug": r2.violated}
    if "MonitorOk" not in r1.violated or "MonitorOk" not in r2.violated:
        ctx.machinery_error = "SendMC cannot see the bugs it is meant to exclude: %s %s" % (r1.violated, r2.violated)
    # C. schedules of the real library
    validate_schedules(ctx, "C12", scenarios(rng, ctx.tier), "c12")
    ctx.remark("recv_data()/recv_data_frame() are not covered by the read lock: two threads calling them directly can tear a "
               "fragmented message under one line-level preemption; C12's receivers are read as users of recv() (DESIGN 0a)")
    ctx.trusted += ["TLC 1.8", "deterministic scheduler vf/schedworld.py (yield points: lock acquire, transport send/recv)",
                    "harness decoder for the content of frames larger than 300 bytes"]
    ctx.assumptions += ["preemption only at blocking primitives (lock acquire, transport calls), bound %s" % "1-2"]


def replay(ctx, path):
    c = json.load(open(path))["case"]
    rng = random.Random(0)
    for sc in scenarios(rng, "thorough"):
        if sc["name"] == c["scenario"]:
            sched = c["schedule"]
            if sched[:1] == ["line"]:
                ev, ch = run_once(sc, [], line_preempt=sched[1])
            else:
                ev, ch = run_once(sc, sched if sched[:1] != ["seed"] else [], seed=sched[1] if sched[:1] == ["seed"] else None)
            for e in ev:
                print({k: v for k, v in e.items() if k != "offered"})
    return 0
