"""Direction specification -> code for the receive machine (C02-C05, C07): behaviours of spec/RecvSim.tla
(RecvMC plus a history of the environment's choices) are enumerated by TLC - exhaustively for small constants,
with -simulate for larger ones - and each one is replayed into the real WebSocket object over a scripted
transport that hands over exactly the pieces, timeouts and end of stream the behaviour chose.  The recorded
trace is validated by TraceRecv like any other; in addition TraceRecv compares the observable history of the
run (outputs written, values returned, exceptions raised, in the specification's terms) with the history the
model predicted for that behaviour."""
from .. import tlc
from . import recv_common as rc

SIM_FRAMES_SMALL = rc.MC_FRAMES_SMALL
APIS = '{ <<"recv_data_frame", TRUE>>, <<"recv_data_frame", FALSE>>, <<"recv", FALSE>>, <<"recv_data", TRUE>>, <<"recv_frame", FALSE>> }'


def _cfg(maxframes, maxto, depth, fire="{FALSE, TRUE}", skip="{FALSE}"):
    return ("SPECIFICATION SSpec\nCONSTANTS\n FrameSet <- FrameSetV\n MaxFrames = %d\n Apis <- ApisV\n"
            " FireConts = %s\n SkipUtf8s = %s\n MaxTimeouts = %d\n Tails <- TailsV\n MaxDepth = %d\nINVARIANT EmitBehaviour\n"
            % (maxframes, fire, skip, maxto, depth))


def _module(name, frames, tails="{ <<>> }", apis=APIS):
    return {name: "---- MODULE %s ----\nEXTENDS RecvSim\n%sApisV == %s\nTailsV == %s\n====\n" % (name, frames, apis, tails)}


def to_scenario(b, tid):
    """One printed behaviour -> scenario of vf/recvworld.py."""
    pos = 0
    cuts, tmo, calls, eof = [], [], 0, False
    for e in b["evs"]:
        if e[0] == "r":
            pos += e[1]
            cuts.append(pos)
        elif e[0] == "t":
            tmo.append(pos)
        elif e[0] == "c":
            calls += 1
        elif e[0] == "e":
            eof = True
    n = len(b["stream"])
    whole = not b["open"] and (b["failed"] or eof)
    sc = {"tid": tid, "stream": bytes(b["stream"]), "cuts": sorted({c for c in cuts if 0 < c < n}), "timeouts": tmo,
          "end": "eof" if eof else "timeout", "fireCont": b["fireCont"], "skipUtf8": b["skipUtf8"],
          "calls": [[b["api"], b["control"]]], "max_calls": max(calls, 1),
          "expect": b["hist"], "whole": whole, "from_model": True}
    return sc


def behaviours(ctx, pid):
    runs = []
    if ctx.tier == "quick":
        if pid == "C03":
            runs.append(("RecvSim_a", _module("RecvSim_a", SIM_FRAMES_SMALL), _cfg(2, 1, 0), None,
                         "every behaviour: 2 frames / 6-frame alphabet, all cuts, <=1 timeout, 5 APIs, fireCont on/off"))
        runs.append(("RecvSim_s", _module("RecvSim_s", rc.MC_FRAMES, tails="{ <<>>, <<129>> }"), _cfg(3, 2, 36, skip="{FALSE, TRUE}"),
                     "num=%d" % (1500 if pid == "C03" else 600), "simulated (seed per property): 3 frames / 14-frame alphabet, <=2 timeouts, all flags"))
    else:
        runs.append(("RecvSim_a", _module("RecvSim_a", SIM_FRAMES_SMALL), _cfg(2, 2, 0, skip="{FALSE, TRUE}"), None,
                     "every behaviour: 2 frames / 6-frame alphabet, all cuts, <=2 timeouts, all flags"))
        runs.append(("RecvSim_b", _module("RecvSim_b", rc.MC_FRAMES, tails="{ <<>>, <<129>> }"), _cfg(2, 1, 0), None,
                     "every behaviour: 2 frames / 14-frame alphabet, all cuts, <=1 timeout"))
        # (4 frames of the 14-frame alphabet are more initial states than TLC's simulator accepts)
        runs.append(("RecvSim_s", _module("RecvSim_s", rc.MC_FRAMES, tails="{ <<>>, <<129>> }"), _cfg(3, 3, 60, skip="{FALSE, TRUE}"),
                     "num=30000", "simulated: 3 frames / 14-frame alphabet, <=3 timeouts, all flags"))
        runs.append(("RecvSim_t", _module("RecvSim_t", SIM_FRAMES_SMALL), _cfg(4, 2, 70, skip="{FALSE, TRUE}"),
                     "num=15000", "simulated: 4 frames / 6-frame alphabet, <=2 timeouts, all flags"))
    out = []
    for name, gen, cfg, sim, what in runs:
        r = tlc.run(name, cfg, "%s_%s" % (pid.lower(), name), gen=gen, timeout=3000, simulate=sim,
                    seed=(ctx.seed * 100 + int(pid[1:])) if sim else None, workers=16 if not sim else 4)
        ctx.add_tlc(r, "RecvSim " + what)
        if r.violated:
            ctx.machinery_error = "RecvSim %s violated %s" % (name, r.violated)
        seen = set()
        for b in tlc.emitted(r, "B"):
            key = repr(sorted(b.items()))
            if key in seen:
                continue
            seen.add(key)
            out.append(to_scenario(b, "mb%d" % len(out)))
        ctx.notes.setdefault("model_behaviours", {})[name] = {"what": what, "behaviours": len(seen)}
    return out


def replay(ctx, pid):
    scs = behaviours(ctx, pid)
    if not scs:
        ctx.machinery_error = "RecvSim produced no behaviours"
        return
    # binding control: one behaviour whose prediction was altered (last output dropped / one added) must be reported
    neg = None
    for sc in scs:
        if sc["whole"] and sc["expect"]:
            neg = dict(sc, tid="mbneg", expect=sc["expect"][:-1])
            break
    rejected = rc.validate(ctx, pid, scs + ([neg] if neg else []), "model_behaviours")
    hit = [x for x in rejected if x[0]["tid"] == "mbneg"]
    rejected = [x for x in rejected if x[0]["tid"] != "mbneg"]
    ctx.notes.setdefault("negative_controls", {})["altered_model_prediction_rejected"] = bool(hit)
    if neg and not (hit and hit[0][1]["why"] == "model.behaviour_not_reproduced"):
        ctx.machinery_error = "binding control failed: a behaviour with an altered prediction was not rejected by TraceRecv"
    drift = [x for x in rejected if x[1]["why"].startswith("model.")]
    rest = [x for x in rejected if not x[1]["why"].startswith("model.")]
    rc.judge(ctx, pid, rest, focused=True)
    for sc, b, trace in drift[:5]:
        ctx.remark("DRIFT: behaviour of RecvSim not reproduced by the implementation although every event was accepted: "
                   "stream=%s api=%s cuts=%s timeouts=%s expected=%s" % (bytes(sc["stream"]).hex(), sc["calls"][0], sc["cuts"], sc["timeouts"], sc["expect"]))
    ctx.notes["model_behaviours"]["replayed"] = len(scs)
    ctx.notes["model_behaviours"]["reproduced_exactly"] = len(scs) - len(rejected)
    ctx.notes["model_behaviours"]["not_reproduced_all_events_accepted"] = len(drift)
