"""C05 - frames the RFC forbids are rejected, legal ones accepted (spec/Codec.tla FrameFaults,
spec/Recv.tla sequencing).  Besides the receive-machine traces, all 65 536 close status codes are
executed against the real parser and judged by TLC in one pass (CloseCodeBatch)."""
import os

from .. import tlc, wire
from . import recv_common


def close_codes(ctx):
    import websocket
    from websocket._exceptions import WebSocketProtocolException
    from ..recvworld import FakeSock
    ev = []
    codes = range(65536) if ctx.tier == "thorough" else sorted(set(
        list(range(0, 65536, 37)) + list(range(990, 1030)) + list(range(2990, 3010)) + list(range(4990, 5010)) + [65535]))
    for code in codes:
        for api in ("recv_frame", "recv_data_frame"):
            sc = {"stream": wire.sframe(8, bytes([code >> 8, code & 255])), "cuts": [], "timeouts": []}
            ws = websocket.WebSocket()
            ws.sock = FakeSock(sc, lambda e: None)
            ws.connected = True
            try:
                if api == "recv_frame":
                    ws.recv_frame()
                else:
                    ws.recv_data_frame(True)
                res = "accepted"
            except WebSocketProtocolException:
                res = "protocol"
            except Exception as e:
                res = type(e).__name__
            ev.append({"code": code, "api": api, "result": res})
            ctx.case(("closecode", code, api))
    d = tlc.scratch("c05_codes_in")
    path = os.path.join(d, "codes.ndjson")
    tlc.write_ndjson(path, ev)
    r = tlc.run("CloseCodeBatch", "INIT Init\nNEXT Next\n", "c05_codes", env={"TRACE_FILE": path}, workers=1, timeout=900)
    ctx.add_tlc(r, "CloseCodeBatch: real parser verdict on close status codes vs Codec!WireCloseCodes")
    bad = tlc.emitted(r, "BAD")[0]
    assert bad[1] == len(ev)
    ctx.traces += len(ev)
    ctx.notes["close_codes_executed"] = len(codes)
    for i in bad[0]:
        e = ev[i - 1]
        ctx.deviation(None, "close frame with status %d via %s: %s (RFC: %s)"
                      % (e["code"], e["api"], e["result"], "legal" if e["result"] != "accepted" else "may not appear on the wire"),
                      {"kind": "closecode", **e})


def concurrent_readers(ctx):
    """The sequencing rules hold for the message a reader assembles: two threads in recv() on one connection, legal fragmented
    messages - nobody is handed another reader's fragment as an "illegal frame", nothing legal is refused (schedules of C12's world)."""
    from . import c12
    tier = ctx.tier
    two = wire.sframe(1, b"m1", 0) + wire.sframe(0, b"-x", 1) + wire.sframe(2, b"\x01", 0) + wire.sframe(9, b"p") + wire.sframe(0, b"\x02", 1) \
        + wire.sframe(1, b"m3")
    scs = [dict(name="c05_recv2", receivers=2, stream=two, recv_calls=3, read_cap=None, senders=[], bound=2, max_runs=200 if tier == "quick" else 2500),
           dict(name="c05_recv2_cap1", receivers=2, stream=two, recv_calls=3, read_cap=1, senders=[], bound=1, max_runs=150 if tier == "quick" else 2500),
           dict(name="c05_recv2_lines", receivers=2, stream=two, recv_calls=3, read_cap=None, senders=[], bound=0, max_runs=1,
                line_level=2 if tier == "quick" else 1)]
    c12.validate_schedules(ctx, "C05", scs, "c05_sched", own=("C12", "C05"))


def main(ctx):
    recv_common.run_for(ctx, "C05")
    close_codes(ctx)
    concurrent_readers(ctx)
    ctx.trusted += ["TLC 1.8 / CommunityModules", "harness: scripted transport + projection (vf/recvworld.py)"]


def replay(ctx, path):
    import json
    c = json.load(open(path))["case"]
    if c.get("kind") == "closecode":
        ctx.tier = "quick"
        close_codes(ctx)
        return ctx.finish()
    return recv_common.replay(ctx, "C05", path)
