"""C03 - see DESIGN.md section 4 and vf/props/recv_common.py (receive machine, spec/Recv.tla)."""
from . import recv_common


def main(ctx):
    recv_common.run_for(ctx, "C03")
    ctx.trusted += ["TLC 1.8 / CommunityModules", "harness: scripted transport + projection (vf/recvworld.py)",
                    "independent frame builder vf/wire.py"]
    ctx.assumptions += ["transport behaviour is simulated (scripted cuts, timeouts, EOF, reset)"]


def replay(ctx, path):
    return recv_common.replay(ctx, "C03", path)
