"""C11 - TLS peers are authenticated by default; only explicit options relax it.
spec/Tls.tla is the decision table (meta-properties and the connect sequence machine checked by TLC in
TlsMC); every configuration x certificate is then run through the real websocket connect path with the
real `ssl` module over a socket pair against an in-process TLS server (certificates generated offline by
the openssl CLI), directly and through an in-process CONNECT proxy, and judged by TLC (TlsBatch)."""
import itertools
import json
import os
import random
import socket
import ssl
import subprocess
import threading
import types

from .. import tlc, wire
from ..common import VERIF

PKI = os.path.join(VERIF, "build", "pki")


def ensure_pki():
    if not os.path.exists(os.path.join(PKI, "done")):
        subprocess.run([os.path.join(VERIF, "tools", "gen_pki.sh"), PKI], check=True)


class PairSocket(socket.socket):
    """client end of a socket pair that tolerates what the library does to a TCP socket"""

    def connect(self, addr):
        return None

    def setsockopt(self, *a):
        try:
            return super().setsockopt(*a)
        except OSError:
            return None


def server_thread(sock, cert, tunnel, rec):
    """plain peer end: optional CONNECT handling, then TLS server side, then a minimal WebSocket handshake"""
    try:
        sock.settimeout(5)
        if tunnel:
            buf = b""
            while b"\r\n\r\n" not in buf:
                d = sock.recv(4096)
                if not d:
                    return
                buf += d
            rec["connect_line"] = buf.split(b"\r\n")[0].decode("latin-1")
            sock.sendall(b"HTTP/1.1 200 Connection established\r\n\r\n")
        first = sock.recv(1, socket.MSG_PEEK)
        rec["first"] = first[0] if first else -1
        if not first:
            return
        if first[0] != 0x16:
            # not TLS: plain HTTP request?
            data = sock.recv(4096)
            rec["plain_request"] = data[:4] == b"GET "
            if data[:4] == b"GET ":
                key = [l.split(b":", 1)[1].strip() for l in data.split(b"\r\n") if l.lower().startswith(b"sec-websocket-key:")]
                rec["ws_seen"] = True
                sock.sendall(wire.response_head(key[0] if key else b""))
            return
        ctx = ssl.SSLContext(ssl.PROTOCOL_TLS_SERVER)
        base = {(True, "good"): "good", (True, "other"): "other", (False, "good"): "self_good", (False, "other"): "self_other"}[cert]
        ctx.load_cert_chain(os.path.join(PKI, base + ".pem"), os.path.join(PKI, base + ".key"))

        def sni(sslobj, name, context):
            rec["sni"] = name or ""
        ctx.sni_callback = sni
        try:
            tls = ctx.wrap_socket(sock, server_side=True)
        except (ssl.SSLError, OSError) as e:
            rec["server_handshake"] = "failed:" + type(e).__name__
            return
        rec["server_handshake"] = "ok"
        try:
            data = tls.recv(4096)
        except (ssl.SSLError, OSError):
            data = b""
        if data[:4] == b"GET ":
            rec["ws_seen"] = True
            key = [l.split(b":", 1)[1].strip() for l in data.split(b"\r\n") if l.lower().startswith(b"sec-websocket-key:")]
            tls.sendall(wire.response_head(key[0] if key else b""))
            try:
                tls.recv(16)
            except (ssl.SSLError, OSError):
                pass
        try:
            tls.close()
        except OSError:
            pass
    except OSError as e:
        rec["server_error"] = type(e).__name__
    finally:
        try:
            sock.close()
        except OSError:
            pass


def redirect_server_thread(sock, rec):
    """plaintext origin that redirects to wss:// on the same host and port and keeps the connection open"""
    try:
        sock.settimeout(5)
        buf = b""
        while b"\r\n\r\n" not in buf:
            d = sock.recv(4096)
            if not d:
                return
            buf += d
        sock.sendall(b"HTTP/1.1 302 Found\r\nLocation: wss://good.test:443/tls\r\nContent-Length: 0\r\n\r\n")
        sock.settimeout(1.5)
        try:
            data = sock.recv(4096)
        except OSError:
            data = b""
        if data[:4] == b"GET ":
            rec["plain_followup"] = True
            key = [l.split(b":", 1)[1].strip() for l in data.split(b"\r\n") if l.lower().startswith(b"sec-websocket-key:")]
            sock.sendall(wire.response_head(key[0] if key else b""))
    except OSError:
        pass
    finally:
        try:
            sock.close()
        except OSError:
            pass


def run_case(c, cert, spelling="lower", via="direct", short=False, prior_tunnel=False, relaxed_before=False, app_ip=False):
    """relaxed_before: the option dict was first used (by another object) with cert_reqs=CERT_NONE, then the caller set the options
    of this case on the same dict.  app_ip: through WebSocketApp.run_forever with an IP literal in the URL and the host= option
    (Host header) naming the certificate's host: the peer is still checked against the URL.
    short: the URL names the single-label host "good" and the resolver reports the canonical name "good.test" - the
    certificate (for good.test) does not name the URL's host.  prior_tunnel: the earlier connection of the same object /
    option dict went through the proxy."""
    import websocket
    import websocket._http as H
    rec = {}
    prior_rec = {}
    redir_rec = {}
    plan = []
    if c.get("prior"):
        plan.append((prior_rec, (True, "other"), bool(prior_tunnel)))
    if via == "redirect":
        plan.append((redir_rec, None, False))
    plan.append((rec, (cert["trusted"], cert["name"]), c["tunnel"] and via != "redirect"))
    clients = []
    threads = []
    for r_, cert_, tun_ in plan:
        a, b = socket.socketpair()
        clients.append(PairSocket(fileno=a.detach()))
        if cert_ is None:
            th = threading.Thread(target=redirect_server_thread, args=(b, r_), daemon=True)
        else:
            th = threading.Thread(target=server_thread, args=(b, cert_, tun_, r_), daemon=True)
        th.start()
        threads.append(th)
    cli = clients[-1]
    th = threads[-1]
    sm = types.SimpleNamespace(**{k: getattr(socket, k) for k in dir(socket) if not k.startswith("__")})
    made = []

    def mk(*args, **kw):
        made.append(1)
        return clients[min(len(made) - 1, len(clients) - 1)]
    sm.socket = mk
    def gai(host, port, family=0, type=0, proto=0, flags=0):
        canon = ("good.test" if host == "good" else host) if flags & socket.AI_CANONNAME else ""
        return [(socket.AF_INET, socket.SOCK_STREAM, 6, canon, ("10.0.0.1", port))]
    sm.getaddrinfo = gai
    sslopt = {}
    cr = {"none": ssl.CERT_NONE, "optional": ssl.CERT_OPTIONAL, "required": ssl.CERT_REQUIRED}
    if c["certReqs"] != "absent":
        sslopt["cert_reqs"] = cr[c["certReqs"]]
    if c["checkHost"] != "absent":
        sslopt["check_hostname"] = c["checkHost"] == "true"
    if c["caOpt"] == "file":
        sslopt["ca_certs"] = os.path.join(PKI, "ca.pem")
    elif c["caOpt"] == "path":
        sslopt["ca_cert_path"] = os.path.join(PKI, "cadir")
    if c["context"] == "permissive":
        cx = ssl.SSLContext(ssl.PROTOCOL_TLS_CLIENT)
        cx.check_hostname = False
        cx.verify_mode = ssl.CERT_NONE
        sslopt["context"] = cx
    elif c["context"] == "strict":
        cx = ssl.SSLContext(ssl.PROTOCOL_TLS_CLIENT)
        cx.load_verify_locations(os.path.join(PKI, "ca.pem"))
        sslopt["context"] = cx
    if c.get("sslVersion") == "tls_client":
        sslopt["ssl_version"] = ssl.PROTOCOL_TLS_CLIENT
    elif c.get("sslVersion") == "tls":
        sslopt["ssl_version"] = ssl.PROTOCOL_TLS
    if c["serverName"] == "right":
        sslopt["server_hostname"] = "good.test"
    elif c["serverName"] == "wrong":
        sslopt["server_hostname"] = "other.test"
    env_old = os.environ.pop("WEBSOCKET_CLIENT_CA_BUNDLE", None)
    if c["caEnv"] == "file":
        os.environ["WEBSOCKET_CLIENT_CA_BUNDLE"] = os.path.join(PKI, "ca.pem")
    elif c["caEnv"] == "dir":
        os.environ["WEBSOCKET_CLIENT_CA_BUNDLE"] = os.path.join(PKI, "cadir")
    saved = H.socket
    H.socket = sm
    outcome = "other"
    exc = ""
    vm, ch = -1, False
    if relaxed_before:
        d0 = {"cert_reqs": ssl.CERT_NONE}
        websocket.WebSocket(sslopt=d0)           # an earlier object built with the same dict while verification was switched off
        d0.pop("cert_reqs")
        d0.update(sslopt)                          # the caller now sets what this case asks for (nothing else is in the dict as far as they know)
        sslopt = d0
    ws = websocket.WebSocket(sslopt=sslopt)
    try:
        kw = {}
        if c["tunnel"]:
            kw = {"http_proxy_host": "proxy.test", "http_proxy_port": 3128}
        ws.settimeout(5)
        if c.get("prior"):
            # an earlier conversation of the same object (same sslopt dict) with another wss host
            try:
                ws.connect("wss://other.test/first", **(dict(http_proxy_host="proxy.test", http_proxy_port=3128) if prior_tunnel else {}))
                ws.close(timeout=0)
            except Exception:
                pass
            made[:] = [1]
        try:
            sch = c["scheme"] if spelling == "lower" else c["scheme"].upper() if spelling == "upper" else c["scheme"].capitalize()
            if app_ip:
                opened, errs = [], []
                app = websocket.WebSocketApp("wss://10.0.0.1/tls", on_open=lambda a: (opened.append(1), a.close()),
                                             on_error=lambda a, e: errs.append(e))
                app.run_forever(sslopt=sslopt, host="good.test")
                if errs and not opened:
                    raise errs[0]
                outcome = "established"
            elif via == "redirect":
                ws.connect("ws://good.test:443/first")
            else:
                ws.connect("%s://%s/tls" % (sch, "good" if short else "good.test"), **kw)
            outcome = "established" if c["scheme"] == "wss" else "plain"
            if app_ip:
                pass
            elif isinstance(ws.sock, ssl.SSLSocket):
                vm = int(ws.sock.context.verify_mode)
                ch = bool(ws.sock.context.check_hostname)
            elif c["scheme"] == "wss":
                outcome = "not_wrapped"
        except ssl.SSLCertVerificationError as e:
            outcome = "tls_rejected"
            exc = type(e).__name__
        except ssl.SSLError as e:
            outcome = "tls_rejected" if "CERTIFICATE_VERIFY_FAILED" in str(e) else "ssl_error"
            exc = type(e).__name__ + ":" + str(e)[:60]
        except ValueError as e:       # (after the ssl classes: SSLCertVerificationError is a ValueError too)
            outcome = "refused"
            exc = type(e).__name__ + ":" + str(e)[:60]
        except Exception as e:
            outcome = "error"
            exc = type(e).__name__ + ":" + str(e)[:80]
    finally:
        H.socket = saved
        os.environ.pop("WEBSOCKET_CLIENT_CA_BUNDLE", None)
        if env_old is not None:
            os.environ["WEBSOCKET_CLIENT_CA_BUNDLE"] = env_old
        try:
            ws.close(timeout=0)
        except Exception:
            pass
        for x in clients:
            try:
                x.close()
            except OSError:
                pass
    for t_ in threads:
        t_.join(6)
    sni = rec.get("sni", "")
    if app_ip:
        # no certificate of the test PKI names the IP address of the URL; the Host header option is not a TLS option
        cert = dict(cert, name="other")
        sni = {"good.test": "other.test"}.get(sni, sni)
    if short:
        # the certificate for good.test is not a certificate for "good"; SNI must be the URL's host
        cert = dict(cert, name="other")
        sni = {"good": "good.test", "good.test": "other.test"}.get(sni, sni)
    return {"c": c, "cert": cert, "outcome": outcome, "firstByteTls": rec.get("first", -1) == 0x16,
            "sni": "good" if sni == "good.test" else "other" if sni == "other.test" else sni,
            "wsSeenByServer": bool(rec.get("ws_seen")), "wsBeforeHandshake": bool(rec.get("plain_request")) and c["scheme"] == "wss",
            "connected": bool(outcome in ("established", "plain")), "verifyMode": vm, "checkHostname": ch, "exc": exc,
            "server": rec.get("server_handshake", ""), "connectLine": rec.get("connect_line", ""),
            "spelling": spelling, "via": via, "plainFollowup": bool(redir_rec.get("plain_followup")),
            "anythingSent": rec.get("first", -1) != -1 or bool(made)}


DIMS = {"scheme": ["wss", "ws"], "certReqs": ["absent", "none", "optional", "required"], "checkHost": ["absent", "true", "false"],
        "caOpt": ["absent", "file", "path"], "caEnv": ["unset", "file", "dir"], "context": ["absent", "permissive", "strict"],
        "serverName": ["absent", "right", "wrong"], "tunnel": [False, True], "sslVersion": ["absent", "tls_client", "tls"],
        "prior": [False, True]}
CERTS = [{"trusted": t, "name": n} for t in (True, False) for n in ("good", "other")]


def contradictory(c):
    return c["context"] == "absent" and c["certReqs"] == "none" and c["checkHost"] == "true"


def cases(rng, tier):
    keys = list(DIMS)
    full = [dict(zip(keys, v)) for v in itertools.product(*[DIMS[k] for k in keys])]
    full = [c for c in full if not contradictory(c)]
    if tier == "thorough":
        chosen = [c for c in full if c["scheme"] == "wss" and (not c["prior"] or c["caOpt"] != "absent" or c["context"] != "absent")][::2] \
            + [c for c in full if c["scheme"] == "ws"][::27]
    else:
        rng.shuffle(full)
        seen = set()
        chosen = []
        for c in full:
            vals = [(k, c[k]) for k in keys]
            pairs = {(a, b) for i, a in enumerate(vals) for b in vals[i + 1:]}
            if not pairs <= seen:
                seen |= pairs
                chosen.append(c)
        # one-factor-at-a-time around the default, for both paths
        for tunnel in (False, True):
            base = {"scheme": "wss", "certReqs": "absent", "checkHost": "absent", "caOpt": "absent", "caEnv": "unset",
                    "context": "absent", "serverName": "absent", "tunnel": tunnel, "sslVersion": "absent", "prior": False}
            chosen.append(dict(base))
            for k in keys:
                for v in DIMS[k]:
                    c = dict(base)
                    c[k] = v
                    if not contradictory(c):
                        chosen.append(c)
                        chosen.append(dict(c, caOpt="file"))
    out = []
    for c in chosen:
        for cert in (CERTS if (tier == "thorough" or c["scheme"] == "wss") else CERTS[:1]):
            out.append((c, cert))
    return out


def main(ctx):
    ensure_pki()
    rng = random.Random(ctx.seed * 59 + 11)
    r = tlc.run("TlsMC", "INIT Init\nNEXT Next\nINVARIANT TlsFirstByte\nINVARIANT NoWsBeforeVerify\nINVARIANT RejectedSendsNothing\n",
                "c11_tlsmc", timeout=900)
    ctx.add_tlc(r, "TlsMC: meta-properties of the decision table (ASSUMEs) and the connect sequence machine over all configurations x certificates")
    if r.violated:
        ctx.machinery_error = "TlsMC violated %s" % r.violated
    cs = cases(rng, ctx.tier)
    ev = [run_case(c, cert) for c, cert in cs]
    # other spellings of the scheme; the wss URL reached by a redirect from ws:// on the same host and port
    wss = [(c, cert) for c, cert in cs if c["scheme"] == "wss" and not c["prior"]]
    rng.shuffle(wss)
    for c, cert in wss[:24 if ctx.tier == "quick" else 300]:
        for sp in ("upper", "mixed"):
            ev.append(run_case(c, cert, spelling=sp))
    for c, cert in [x for x in wss if not x[0]["tunnel"]][:16 if ctx.tier == "quick" else 200]:
        ev.append(run_case(c, cert, via="redirect"))
    # a single-label URL host whose canonical name (as the resolver reports it) is the name in the certificate
    for c, cert in [x for x in wss if x[0]["serverName"] == "absent" and x[1]["name"] == "good"][:16 if ctx.tier == "quick" else 200]:
        ev.append(run_case(c, cert, short=True))
    # the option dict had been used with verification switched off before the caller set these options on it
    for c, cert in [x for x in wss if x[0]["context"] == "absent" and x[0]["certReqs"] != "none"][:20 if ctx.tier == "quick" else 300]:
        ev.append(run_case(c, cert, relaxed_before=True))
    # WebSocketApp, IP literal in the URL, Host header option naming the certificate's host
    for c, cert in [x for x in wss if not x[0]["tunnel"] and x[0]["serverName"] == "absent" and x[1]["name"] == "good"][:12 if ctx.tier == "quick" else 150]:
        ev.append(run_case(c, cert, app_ip=True))
    # the earlier connection of the same object / option dict went through the proxy
    pr = [(c, cert) for c, cert in cs if c["scheme"] == "wss" and c["prior"]]
    rng.shuffle(pr)
    for c, cert in pr[:24 if ctx.tier == "quick" else 300]:
        ev.append(run_case(c, cert, prior_tunnel=True))
    d = tlc.scratch("c11_in")
    path = os.path.join(d, "tls.ndjson")
    tlc.write_ndjson(path, ev)
    r = tlc.run("TlsBatch", "INIT Init\nNEXT Next\n", "c11_batch", env={"TRACE_FILE": path}, workers=1, timeout=1800)
    ctx.add_tlc(r, "TlsBatch: real handshakes vs Tls!Outcome")
    v = tlc.emitted(r, "BAD")[0]
    assert v["n"] == len(ev)
    ctx.traces += len(ev)
    for i, faults in v["bad"]:
        e = ev[i - 1]
        ctx.deviation(None, "cfg %s, server cert %s: %s; outcome=%s exc=%s sni=%r first_byte_tls=%s ws_seen=%s"
                      % (json.dumps(e["c"]), e["cert"], faults, e["outcome"], e["exc"], e["sni"], e["firstByteTls"], e["wsSeenByServer"]),
                      {"event": e, "faults": faults})
    for e in ev:
        ctx.case(json.dumps([e["c"], e["cert"]], sort_keys=True))
    ctx.sample(ev[len(ev) // 2])
    ctx.notes["handshakes"] = len(ev)
    ctx.notes["outcomes"] = {k: sum(1 for e in ev if e["outcome"] == k) for k in sorted({e["outcome"] for e in ev})}
    neg = json.loads(json.dumps([e for e in ev if e["outcome"] == "tls_rejected"][:1] + [e for e in ev if e["outcome"] == "established"][:1]))
    neg[0]["outcome"] = "established"
    neg[1]["firstByteTls"] = False
    p2 = os.path.join(d, "neg.ndjson")
    tlc.write_ndjson(p2, neg)
    r2 = tlc.run("TlsBatch", "INIT Init\nNEXT Next\n", "c11_neg", env={"TRACE_FILE": p2}, workers=1, timeout=300)
    nb = sorted(i for i, _ in tlc.emitted(r2, "BAD")[0]["bad"])
    ctx.notes["negative_controls"] = nb
    if nb != [1, 2]:
        ctx.machinery_error = "C11 negative controls not rejected: %s" % nb
    ctx.exhaustive = ctx.tier == "thorough"
    ctx.trusted += ["TLC 1.8", "CPython ssl / OpenSSL for certificate path and host-name validation", "openssl CLI (offline test PKI)"]
    ctx.assumptions += ["cert_reqs=CERT_NONE together with check_hostname=True is outside the space (Python's ssl refuses the combination)",
                        "the system trust store does not contain the test CA"]


def replay(ctx, path):
    ensure_pki()
    c = json.load(open(path))["case"]["event"]
    print(run_case(c["c"], c["cert"]))
    return 0
