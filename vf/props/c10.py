"""C10 - the opening handshake request is well-formed and reflects URL and options.
spec/Http.tla Request(...) is the oracle; the bytes the real library writes are parsed by a strict
independent parser and judged by TLC (ReqBatch); an independent server implementation
(websockets' sans-IO ServerProtocol, if importable) must accept them."""
import base64
import itertools
import json
import os
import random
import re

from .. import tlc
from ..networld import World, HangForever
from .conn_common import HeadPeer, OKHEAD

TOKEN = re.compile(rb"^[!#$%&'*+\-.^_`|~0-9A-Za-z]+$")


def strict_parse(raw):
    """-> (ok, request line, [header lines]).  ok: CRLF line ends only, ends with exactly one empty
    line, request line = METHOD SP target SP HTTP/1.1, each header 'token: value' without control bytes."""
    ok = True
    if not raw.endswith(b"\r\n\r\n"):
        ok = False
    body = raw[:-4] if raw.endswith(b"\r\n\r\n") else raw
    lines = body.split(b"\r\n")
    for ln in lines:
        if b"\r" in ln or b"\n" in ln or ln == b"":
            ok = False
    rl = lines[0] if lines else b""
    parts = rl.split(b" ")
    if len(parts) != 3 or parts[0] != b"GET" or parts[2] != b"HTTP/1.1" or not parts[1].startswith(b"/"):
        ok = False
    for h in lines[1:]:
        if b":" not in h:
            ok = False
            continue
        name, val = h.split(b":", 1)
        if not TOKEN.match(name) or any(c < 32 or c == 127 for c in val):
            ok = False
    dec = lambda b: b.decode("latin-1")
    return ok, dec(rl), [dec(h) for h in lines[1:]]


def server_accepts(raw):
    try:
        from websockets.server import ServerProtocol
    except Exception:
        return None
    p = ServerProtocol()
    p.receive_data(raw)
    evs = p.events_received()
    if not evs:
        return False
    r = p.accept(evs[0])
    return r.status_code == 101


HOSTS = [("server.test", False, "server.test"), ("127.0.0.1", False, "127.0.0.1"), ("[::1]", True, "::1"),
         ("[2001:db8::7]", True, "2001:db8::7"), ("Upper.Test", False, "upper.test")]
PORTS = [0, 80, 443, 8080, 1, 65535]
PATHS = ["", "/", "/a/b", "/x.y-z_~", "/app;jsessionid=AB12"]
QUERIES = ["", "x=1&y=2", "q", "q=a+b&r=(1)*'$!,;:@[x]", "next=/login?from=home"]
OPT_DIMS = {
    "host": [None, "override.test:9"],
    "origin": [None, "https://o.test"],
    "suppress_origin": [False, True],
    "subprotocols": [None, ["a"], ["chat", "superchat"]],
    "cookie": [None, "k=v", "a=1; b=2"],
    "header": [None, ["X-A: 1", "X-B: two words"], {"X-D": "1", "X-E": "e"}, {"X-N": None, "X-F": "f"}, []],
    "connection": [None, "Connection: keep-alive, Upgrade"],
    "jar": [None, "j=1"],
    "trace": [False, True],
    "wcap": [None, 1, 50],         # the transport accepts at most this many bytes per write        # debug tracing on: what is logged (and possibly masked there) must not change the wire
}
OPT_DIMS["header"].append(["Authorization: Basic dXNlcjpwYXNz", "X-Api-Key: s3cret"])
OPT_DIMS["header"].append(["X-Forwarded-For: 10.0.0.1", "X-Forwarded-For: 10.0.0.2", "x-forwarded-for: 10.0.0.3"])   # a repeated field stays repeated
OPT_DIMS["header"].append({"X-Token": "1", "x-token": "2"})
OPT_DIMS["cookie"].append("session=abc123; token=xyz")
OPT_DIMS["cookie"].append("name=J\u00fcrgen; lang=d\u00e9")          # characters beyond ASCII go out as UTF-8, whatever the transport accepts per write
OPT_DIMS["header"].append(["X-Name: Zo\u00eb \u2603", "X-Plain: p"])


def wire_view(x):
    """how a str option value reads in the (latin-1 decoded) bytes of the request"""
    return x.encode("utf-8").decode("latin-1") if isinstance(x, str) else x


def scenarios(rng, tier):
    targets = list(itertools.product(["ws", "wss"], HOSTS, PORTS, PATHS, QUERIES))
    names = list(OPT_DIMS)
    out = []
    # every target with default options
    for t in targets:
        out.append((t, {}))
    # every pair of option values (full product of each pair of options), on random targets
    for a, b in itertools.combinations(names, 2):
        for va in OPT_DIMS[a]:
            for vb in OPT_DIMS[b]:
                out.append((rng.choice(targets), {a: va, b: vb}))
    # random full combinations
    for _ in range(300 if tier == "quick" else 6000):
        out.append((rng.choice(targets), {k: rng.choice(v) for k, v in OPT_DIMS.items()}))
    if tier == "thorough":
        for t in targets:
            out.append((t, {k: rng.choice(v) for k, v in OPT_DIMS.items()}))
    return out


def run_one(idx, target, opts, draws):
    import websocket
    import websocket._handshake as HS
    scheme, (hosttxt, v6, hostplain), port, path, query = target
    url = "%s://%s%s%s%s" % (scheme, hosttxt, ":%d" % port if port else "", path, "?" + query if query else "")
    peers = []

    def factory(world, sock, address):
        spec = dict(OKHEAD)
        if opts.get("subprotocols"):
            spec["subproto"] = " " + opts["subprotocols"][0]
        p = HeadPeer(world, spec, None)
        peers.append(p)
        return p
    events = []
    HS.CookieJar.jar.clear()
    if opts.get("jar"):
        HS.CookieJar.add("j=1; Domain=%s" % hostplain.lower())
    kw = {k: v for k, v in opts.items() if k not in ("jar", "trace", "wcap") and v is not None and v is not False}
    import logging
    lg = logging.getLogger("websocket")
    lg_state = (lg.level, list(lg.handlers))
    if opts.get("trace"):
        websocket.enableTrace(True, handler=logging.NullHandler(), level="DEBUG")
    try:
        return _run_reps(idx, target, opts, draws, kw, url, factory, peers, events)
    finally:
        if opts.get("trace"):
            websocket.enableTrace(False, handler=logging.NullHandler())
            lg.setLevel(lg_state[0])
            lg.handlers = lg_state[1]


def _run_reps(idx, target, opts, draws, kw, url, factory, peers, events):
    import websocket
    import websocket._handshake as HS
    scheme, (hosttxt, v6, hostplain), port, path, query = target
    for rep in range(3):
        w = World(resolver={"*": ["10.0.0.9"]}, peer_factory=factory)
        w.write_cap = opts.get("wcap")
        n0 = len(draws)
        with w:
            ws = websocket.WebSocket()
            ws.settimeout(3)
            # TLS is not part of this property: wss targets are connected over a prepared plain transport
            try:
                if scheme == "wss":
                    s = w.socket_module().socket()
                    s.connect((hostplain, port or 443))
                    ws.connect(url, socket=s, **kw)
                else:
                    ws.connect(url, **kw)
            except (Exception, HangForever) as e:      # the response side is C09's business; the request was written
                w.ev("connect_failed", what=repr(e)[:100])
        first_read = next((k for k, e in enumerate(w.log) if e["ev"] in ("trecv", "teof", "ttimeout")), len(w.log))
        sends = [bytes(e["bytes"]) for e in w.log[:first_read] if e["ev"] == "tsend"]
        raw = b"".join(sends)
        ok, line, headers = strict_parse(raw)
        key = ""
        for h in headers:
            if h.lower().startswith("sec-websocket-key:"):
                key = h.split(":", 1)[1].strip()
        new_draws = [d for d in draws[n0:] if d[0] == 16]
        try:
            raw16 = base64.b64decode(key, validate=True)
            # 16 bytes; if the OS source was observed being asked for 16 bytes, the key must be that very draw
            key_ok = len(raw16) == 16 and (not new_draws or (len(new_draws) == 1 and new_draws[0][1] == raw16))
        except Exception:
            key_ok = False
        hdr = opts.get("header")
        if isinstance(hdr, dict):
            hl = ["%s: %s" % (k, v) for k, v in hdr.items() if v is not None]
        else:
            hl = list(hdr or [])
        hl = [wire_view(x) for x in hl]
        sa = server_accepts(raw)
        overrides = bool(opts.get("connection"))
        events.append({
            "t": {"scheme": scheme, "host": hostplain, "v6": v6, "port": port, "path": path, "query": query},
            "o": {"host": opts.get("host") or "", "origin": opts.get("origin") or "",
                  "suppressOrigin": bool(opts.get("suppress_origin")), "subprotocols": opts.get("subprotocols") or [],
                  "cookie": wire_view(opts.get("cookie") or ""), "headerLines": hl, "connection": opts.get("connection") or "",
                  "jarCookie": "j=1" if opts.get("jar") else ""},
            "line": line, "headers": headers, "key": key, "keyFresh": key_ok, "syntaxOk": ok, "writes": len(sends),
            "serverChecked": sa is not None and not overrides, "serverAccepts": bool(sa), "url": url, "idx": idx, "rep": rep,
        })
    keys = [e["key"] for e in events]
    if len(set(keys)) != len(keys):
        for e in events:
            e["keyFresh"] = False
    HS.CookieJar.jar.clear()
    return events


def app_requests(ctx, scs):
    """The opening handshakes of a reconnecting WebSocketApp: every one of them is built from the options as they are
    at that moment - a callable header option is evaluated for each handshake."""
    from .. import appworld
    out = []
    target = ("ws", ("app.test", False, "app.test"), 0, "/x", "")
    for R in (1, 2):
        for static in ([], ["X-Static: s"]):
            for akw in ({}, {"cookie": "k=v"}, {"subprotocols": ["a"]}):
                for cbl in (True, False):
                    sc = {"tid": "c10app", "conns": [{"events": [(50, ("text", "a")), (50, ("eof",))]}, {"events": [(50, ("reset",))]}, {"accept": False},
                                                     {"events": [(50, ("close", 1000, b""))]}],
                          "run": {"reconnect": R}, "app_kw": dict(akw, header=list(static), header_callable=cbl), "horizon": 60000}
                    log, _ = appworld.run_app(sc)
                    reqs = [e for e in log if e["ev"] == "request"]
                    evals = 0
                    prev_evals = 0
                    keys = []
                    for k, e in enumerate(reqs):
                        evals = max([x["n"] for x in log[:log.index(e)] if x["ev"] == "header_eval"] or [0])
                        raw = bytes(e["raw"])
                        ok, line, headers = strict_parse(raw)
                        key = next((h.split(":", 1)[1].strip() for h in headers if h.lower().startswith("sec-websocket-key:")), "")
                        keys.append(key)
                        # (a refused attempt evaluates the option too) every handshake follows an evaluation of its own
                        want = evals if evals > prev_evals else prev_evals + 1
                        prev_evals = evals
                        hl = static + (["X-Seq: %d" % want] if cbl else [])
                        opts = dict(akw, header=hl)
                        scs.append((target, dict(opts, app=True, handshake=k + 1, evaluations=evals)))
                        sa = server_accepts(raw)
                        out.append({
                            "t": {"scheme": "ws", "host": "app.test", "v6": False, "port": 0, "path": "/x", "query": ""},
                            "o": {"host": "", "origin": "", "suppressOrigin": False, "subprotocols": akw.get("subprotocols") or [],
                                  "cookie": akw.get("cookie") or "", "headerLines": hl, "connection": "", "jarCookie": ""},
                            "line": line, "headers": headers, "key": key, "keyFresh": keys.count(key) == 1, "syntaxOk": ok, "writes": 1,
                            "serverChecked": sa is not None, "serverAccepts": bool(sa), "url": "ws://app.test/x", "idx": len(scs) - 1, "rep": k})
                    if len(reqs) < 3:
                        ctx.machinery_error = "C10 app scenario made %d handshakes, expected at least 3" % len(reqs)
    return out


def main(ctx):
    import os as _os
    rng = random.Random(ctx.seed * 31 + 10)
    scs = scenarios(rng, ctx.tier)
    draws = []
    real = _os.urandom

    def spy(n):
        v = real(n)
        draws.append((n, v))
        return v
    _os.urandom = spy
    try:
        ev = []
        for i, (t, o) in enumerate(scs):
            ev += run_one(i, t, o, draws)
    finally:
        _os.urandom = real
    ev += app_requests(ctx, scs)
    invs = ["ResourceAbsolute", "QueryKept", "MandatoryOnce", "OriginRule", "DefaultPortHidden", "V6Bracketed",
            "CookieRule", "CookieOrder"]
    rm = tlc.run("HttpMC", "INIT Init\nNEXT Next\n" + "".join("INVARIANT %s\n" % i for i in invs), "c10_httpmc", timeout=900)
    ctx.add_tlc(rm, "HttpMC: meta-properties of Http!Request over targets x options")
    if rm.violated:
        ctx.machinery_error = "HttpMC violated %s" % rm.violated
    d = tlc.scratch("c10_in")
    path = os.path.join(d, "req.ndjson")
    tlc.write_ndjson(path, ev)
    r = tlc.run("ReqBatch", "INIT Init\nNEXT Next\n", "c10_batch", env={"TRACE_FILE": path}, workers=1, timeout=1800)
    ctx.add_tlc(r, "ReqBatch: Http!RequestFaults on every recorded request")
    v = tlc.emitted(r, "BAD")[0]
    assert v["n"] == len(ev)
    ctx.traces += len(ev)
    for i, faults in v["bad"]:
        e = ev[i - 1]
        ctx.deviation(None, "request for %s with options %s breaks %s: line=%r headers=%r"
                      % (e["url"], json.dumps(scs[e["idx"]][1]), faults, e["line"], e["headers"]),
                      {"target": scs[e["idx"]][0], "opts": scs[e["idx"]][1], "event": e, "faults": faults})
    for e in ev:
        ctx.case(("req", e["url"], json.dumps(e["o"], sort_keys=True)))
    ctx.sample(ev[len(ev) // 3])
    checked = sum(1 for e in ev if e["serverChecked"])
    ctx.notes["independent_server_checked"] = checked
    if checked == 0:
        ctx.remark("websockets package not importable: independent-server clause skipped")
    # negative control: a corrupted record must be reported by TLC
    neg = json.loads(json.dumps(ev[:3]))
    neg[0]["headers"] = [h for h in neg[0]["headers"] if not h.startswith("Upgrade")]
    neg[1]["line"] = neg[1]["line"].replace("HTTP/1.1", "HTTP/1.0")
    path2 = os.path.join(d, "neg.ndjson")
    tlc.write_ndjson(path2, neg)
    r2 = tlc.run("ReqBatch", "INIT Init\nNEXT Next\n", "c10_neg", env={"TRACE_FILE": path2}, workers=1, timeout=300)
    nb = sorted(i for i, _ in tlc.emitted(r2, "BAD")[0]["bad"])
    ctx.notes["negative_controls"] = nb
    if nb != [1, 2]:
        ctx.machinery_error = "C10 negative controls: expected records 1,2 rejected, got %s" % nb
    ctx.trusted += ["TLC 1.8", "strict HTTP request parser in vf/props/c10.py", "websockets.server.ServerProtocol (independent server)"]
    ctx.assumptions += ["wss targets are connected over a prepared plain transport (TLS is C11's subject)"]


def replay(ctx, path):
    c = json.load(open(path))["case"]
    t = c["target"]
    t[1] = tuple(t[1])
    for e in run_one(0, tuple(t), c["opts"], []):
        print(e["line"], e["headers"])
    return 0
