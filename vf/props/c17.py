"""C17 - arbitrary server bytes: documented exceptions only, progress, bounded requests.
Frame phase: the receive machine (spec/Recv.tla) is total over byte streams; handshake phase:
see vf/props/conn_common.py (HeadMachine)."""
from .. import tlc
from . import recv_common


def model_check_bytes(ctx):
    syms = [0, 1, 2, 125, 126, 127, 128, 129, 136, 137, 138, 255]
    if ctx.tier == "quick":
        syms = [0, 1, 126, 127, 129, 136, 137, 255]
    frames = "FrameSetV == { %s }\n" % ", ".join("<<%d>>" % b for b in syms)
    gen = recv_common.mc_module("RecvMC_bytes", frames, tails="{ <<>> }")
    cfg = recv_common.mc_cfg(3 if ctx.tier == "quick" else 4, 1, invs=["StepAccepts", "Conservation", "Total", "ReqBounded", "SegIndep"], props=())
    r = tlc.run("RecvMC_bytes", cfg, "c17_RecvMC_bytes", gen=gen, timeout=3000)
    ctx.add_tlc(r, "RecvMC over raw byte strings (alphabet %s, length <= %d): totality, bounded requests" % (syms, 3 if ctx.tier == "quick" else 4))
    if r.violated:
        ctx.machinery_error = "RecvMC_bytes violated %s" % r.violated


def main(ctx):
    model_check_bytes(ctx)
    recv_common.run_for(ctx, "C17", with_mc=False)
    try:
        from . import conn_common
    except ImportError:
        conn_common = None
    if conn_common:
        conn_common.run_c17(ctx)
    ctx.trusted += ["TLC 1.8 / CommunityModules", "harness: scripted transport + projection"]


def replay(ctx, path):
    return recv_common.replay(ctx, "C17", path)
