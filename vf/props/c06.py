"""C06 - text is delivered only if the whole payload is well-formed UTF-8.

A. TLC explores the product  (implementation table read from the live module) x
   (Unicode definition in Codec.tla): decides the property for all byte strings.
D. spec -> code: for every reachable product state TLC prints a shortest witness w and the
   definition's verdict on w and on w+<<b>> for all 256 b; the real validate_utf8 (table +
   the loop around it) is called on each of those strings.
C. code -> spec: verdicts of the real function on generated strings are validated by TLC
   against Codec!WellFormedUtf8; message level (fragments, close reasons, validation off)
   through the receive machine (TraceRecv), see vf/recvworld.py.
"""
import os
import random

from .. import tlc
from ..common import Ctx


def _table():
    from websocket import _utils
    t = getattr(_utils, "_UTF8D", None)
    if t is None:
        return None
    return list(t), getattr(_utils, "_UTF8_ACCEPT", 0), getattr(_utils, "_UTF8_REJECT", 12)


def product(ctx):
    from websocket import _utils
    tab = _table()
    if tab is None:
        # the validator is no longer table driven: the product cannot be formed from live data.  The witnesses
        # (one string per state and transition of the Unicode DFA) are then generated from a bundled copy of the
        # reference automaton; the verdict on each string is still the TLA+ definition's.
        import json as _json
        ref = _json.load(open(os.path.join(os.path.dirname(__file__), "utf8_ref_table.json")))
        tab = (ref["table"], ref["accept"], ref["reject"])
        ctx.remark("implementation has no _UTF8D table: product automaton formed with the bundled reference table "
                   "(witness generation only); the real validator is judged on every witness and on the batch")
    t, acc, rej = tab
    gen = {"Utf8Tbl": "---- MODULE Utf8Tbl ----\nUTF8D == %s\nImplAccept == %d\nImplReject == %d\n====\n"
           % (tlc.tla(t), acc, rej)}
    cfg = ("INIT Init\nNEXT Next\nVIEW View\nINVARIANT TypeOK\nINVARIANT RejectAgree\n"
           "INVARIANT AcceptAgree\nINVARIANT Emit\nPROPERTY DeadIsTrap\n")
    try:
        r = tlc.run("Utf8Equiv", cfg, "c06_product", gen=gen, workers=1, coverage=True, timeout=300)
    except tlc.TlcError as e:
        # an out-of-range table entry makes TLC fail while evaluating IStep: the table is
        # not a total automaton any more, which is a property failure of the code's data
        ctx.violation("implementation UTF-8 table is not a well-formed automaton: %s" % str(e)[:300],
                      {"kind": "table", "table": t})
        return None
    ctx.add_tlc(r, "Utf8Equiv: product of live _UTF8D with the Unicode definition")
    if r.violated:
        ctx.violation("product automaton: %s violated; counterexample %s"
                      % (",".join(r.violated), r.cex[-1:] if r.cex else ""),
                      {"kind": "product", "violated": r.violated,
                       "cex": [[a, " ".join(b)] for a, b in r.cex]})
    ws = tlc.emitted(r, "W")
    ctx.notes["product_states"] = r.distinct
    ctx.notes["witness_prefixes"] = len(ws)
    return ws


def replay_witnesses(ctx, ws):
    from websocket._utils import validate_utf8
    n = 0
    for w, acc_here, nxt in ws:
        cases = [(list(w), acc_here)] + [(list(w) + [b], nxt[b]) for b in range(256)]
        for s, expect in cases:
            n += 1
            got = bool(validate_utf8(bytes(s)))
            ctx.case(("w", tuple(s)))
            if got != expect:
                ctx.deviation(None, "validate_utf8(%r) = %s, Unicode definition (TLC) says %s"
                              % (bytes(s), got, expect),
                              {"kind": "witness", "bytes": s, "impl": got, "spec": expect})
    ctx.notes["witness_transitions_replayed"] = n
    ctx.sample({"witness_prefixes": [w for w, _, _ in ws][:9]})


SEEDS = [
    "", "a", "hello", "é", "߿", "ࠀ", "￿", "\U00010000", "\U0010ffff",
    "퟿", "", "aéb€c\U0001f600d", "\u0080", "翿耀",
]
BAD = [
    b"\xc0\x80", b"\xc1\xbf", b"\xe0\x80\x80", b"\xe0\x9f\xbf", b"\xf0\x80\x80\x80", b"\xf0\x8f\xbf\xbf",
    b"\xed\xa0\x80", b"\xed\xbf\xbf", b"\xf4\x90\x80\x80", b"\xf5\x80\x80\x80", b"\xf8\x88\x80\x80\x80",
    b"\x80", b"\xbf", b"\xfe", b"\xff", b"\xc2", b"\xe2\x82", b"\xf0\x9f\x98", b"a\xc2", b"\xc2a",
    b"\xe2\x82a", b"\xef\xbf\xbe", b"\xf4\x8f\xbf\xbf", b"\xed\x9f\xbf", b"\xee\x80\x80",
]


def gen_strings(rng, n):
    out = []
    for s in SEEDS:
        b = s.encode("utf-8")
        out.append(b)
        for k in range(len(b)):
            out.append(b[:k])
            out.append(b[k:])
    out += BAD
    for b in BAD:
        out.append(b"ok" + b)
        out.append(b + b"ok")
    while len(out) < n:
        k = rng.random()
        if k < 0.3:
            out.append(bytes(rng.randrange(256) for _ in range(rng.randrange(0, 9))))
        elif k < 0.6:
            s = "".join(chr(rng.choice([rng.randrange(0x80), rng.randrange(0x80, 0x800),
                                       rng.choice([rng.randrange(0x800, 0xd800), rng.randrange(0xe000, 0x10000)]),
                                       rng.randrange(0x10000, 0x110000)]))
                        for _ in range(rng.randrange(1, 6)))
            b = bytearray(s.encode("utf-8"))
            m = rng.random()
            if m < 0.4 and b:
                b[rng.randrange(len(b))] = rng.randrange(256)
            elif m < 0.6 and b:
                del b[rng.randrange(len(b))]
            elif m < 0.7:
                b = b[:rng.randrange(len(b) + 1)]
            out.append(bytes(b))
        else:
            lead = rng.choice([0xc2, 0xdf, 0xe0, 0xe1, 0xec, 0xed, 0xee, 0xef, 0xf0, 0xf1, 0xf3, 0xf4])
            tail = [rng.choice([0x7f, 0x80, 0x8f, 0x90, 0x9f, 0xa0, 0xbf, 0xc0]) for _ in range(rng.randrange(0, 4))]
            out.append(bytes([lead] + tail) + rng.choice([b"", b"a", b"\x80"]))
    return out


def batch(ctx, n):
    from websocket._utils import validate_utf8
    rng = random.Random(ctx.seed * 7919 + 6)
    strs = list(dict.fromkeys(gen_strings(rng, n)))
    ev = [{"bytes": list(b), "valid": bool(validate_utf8(b))} for b in strs]
    d = tlc.scratch("c06_batch_in")
    path = os.path.join(d, "utf8.ndjson")
    tlc.write_ndjson(path, ev)
    r = tlc.run("Utf8Batch", "INIT Init\nNEXT Next\n", "c06_batch", env={"TRACE_FILE": path}, workers=1,
                timeout=1800)
    ctx.add_tlc(r, "Utf8Batch: real validate_utf8 verdicts vs Codec!WellFormedUtf8")
    bad = tlc.emitted(r, "BAD")
    assert bad and bad[0][1] == len(ev), "TLC did not report on the batch"
    ctx.traces += len(ev)
    for i in bad[0][0]:
        e = ev[i - 1]
        ctx.deviation(None, "validate_utf8(%r) = %s but the Unicode definition says %s"
                      % (bytes(e["bytes"]), e["valid"], not e["valid"]),
                      {"kind": "batch", "bytes": e["bytes"], "impl": e["valid"]})
    for b in strs:
        ctx.case(("s", b), nontrivial=len(b) > 0)
    ctx.sample({"batch_examples": [list(b) for b in strs[40:44]]})


def after_concurrent_recv(ctx):
    """Two threads have been reading with recv() at the same time; afterwards ill-formed text is still refused by every receive
    call (nothing about validation is left switched off).  Schedules of C12's world, the outcome of the last call judged here."""
    from .. import wire
    from . import c12
    stream = wire.sframe(1, b"a") + wire.sframe(1, b"b", 0) + wire.sframe(0, b"c", 1) + wire.sframe(1, b"\xff\xfe")
    sc = dict(name="c06_after_recv2", receivers=2, stream=stream, recv_calls=2, read_cap=None, senders=[], bound=2,
              max_runs=120 if ctx.tier == "quick" else 2000, line_level=3 if ctx.tier == "quick" else 1, after_recv_data=True)
    name, traces = c12._explore_scenario((sc, ctx.seed, 20))
    for tid, prefix, ev in traces:
        fin = ev[0].get("final")
        ctx.case(("after_concurrent_recv", tuple(prefix)))
        ctx.traces += 1
        if fin is None:
            continue
        if fin["kind"] == "ret" and fin["op"] == 1:
            ctx.deviation(None, "schedule %s (choices %s): after two threads read with recv(), recv_data() delivered the ill-formed text %s"
                          % (tid, prefix[:20], bytes(fin["data"])), {"clause": "C06.ill_formed_text_delivered", "schedule": prefix, "final": fin})
        elif fin["kind"] == "raise" and fin["cls"] not in ("WebSocketPayloadException", "WebSocketProtocolException", "WebSocketConnectionClosedException"):
            ctx.deviation(None, "schedule %s: recv_data() of ill-formed text raised %s" % (tid, fin["cls"]),
                          {"clause": "C17.undocumented_exception", "schedule": prefix, "final": fin})


def main(ctx: Ctx):
    ws = product(ctx)
    if ws:
        replay_witnesses(ctx, ws)
    batch(ctx, 4000 if ctx.tier == "quick" else 120000)
    from . import recv_common
    recv_common.run_for(ctx, "C06")
    after_concurrent_recv(ctx)
    from . import app_common
    app_common.run_extra(ctx, "C06", app_common.fam_app_text, "app_text",
                         cross={"C13.delivered_something_the_server_did_not_send (duplicate?)", "C13.delivered_content_differs",
                                "C13.events_out_of_order_or_skipped", "C14.run_did_not_end_after_protocol_violation"})
    ctx.exhaustive = True
    ctx.trusted += ["TLC 1.8 / CommunityModules", "harness projection (vf/)"]
    ctx.assumptions += ["pure-Python validator path (wsaccel absent in this environment)"]


def replay(ctx, path):
    import json
    from websocket._utils import validate_utf8
    c = json.load(open(path))["case"]
    if "bytes" in c:
        b = bytes(c["bytes"])
        got = bool(validate_utf8(b))
        try:
            b.decode("utf-8")
            want = True
        except UnicodeDecodeError:
            want = False
        print("validate_utf8(%r) = %s ; Unicode says %s" % (b, got, want))
        if got != want:
            print("VIOLATION property=C06 replay=%s" % path)
            return 1
        return 0
    print("replay of kind %s: rerun ./check C06" % c.get("kind"))
    return main(ctx) or ctx.finish()
