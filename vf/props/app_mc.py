"""Model checking of the process model App.tla against the monitor AppMon (filled in below)."""


def model_check(ctx, pid):
    try:
        from . import app_model
    except ImportError:
        ctx.remark("App.tla model checking not built yet")
        return
    app_model.model_check(ctx, pid)
