"""C20 - cookies are replayed only to hosts inside the domain that set them.
spec/Cookie.tla (jar machine), CookieMC (all histories up to a bound vs a history-based definition),
TraceCookie (real handshake histories stepped through the machine)."""
import itertools
import json
import os
import random

from .. import tlc
from ..networld import World
from .conn_common import HeadPeer, OKHEAD

DOMAINS = [  # (labels, rendered text)
    (["x", "a"], "x.a"), (["x", "a"], "X.A"), (["x", "a"], ".x.a"), (["a"], "a"), (["b", "x", "a"], "b.x.a"),
    (["x", "a"], ".X.a"), ([], None),
]
HOSTS = [(["x", "a"], "x.a"), (["b", "x", "a"], "b.x.a"), (["bx", "a"], "bx.a"), (["xx", "a"], "xx.a"), (["a"], "a"),
         (["x", "a"], "X.A"), (["c", "b", "x", "a"], "c.B.x.a"), (["a", "x"], "a.x")]
COOKIES = [[("k", "1")], [("k", "2")], [("m", "1")], [("k", "1"), ("m", "2")], [("m", "2"), ("a", "1")], [("z", "2")],
           # one name set three times in one response (X, Y, X): the last line wins
           [("k", "1"), ("k", "2"), ("k", "1")]]
USERS = ["", "u=9"]


def steps_alphabet():
    return list(itertools.product(range(len(HOSTS)), range(len(DOMAINS)), range(len(COOKIES)), range(len(USERS))))


def run_history(tid, hist, threads=False):
    """threads: every connect() call is made from a thread of its own (the jar is shared by all threads).  hist: steps (host, domain, cookies, user[, host option index or None[, redirect]]).  A step with the redirect flag
    answers 302 (with its Set-Cookie lines) and points to the host of the next step: both requests belong to one
    connect() call.  The host option (a custom Host header) must not change which cookies are looked up."""
    import websocket
    import websocket._handshake as HS
    HS.CookieJar.jar.clear()
    ev = [{"ev": "begin", "tid": tid, "i": 0}]
    hist = [tuple(s) + (None, False, False)[len(s) - 4:] for s in hist]      # (.., host option, redirect, wss)
    k = 0
    while k < len(hist):
        chain = [hist[k]]
        while chain[-1][5] and k + len(chain) < len(hist):
            chain.append(hist[k + len(chain)])
        specs = []
        for j, (hi, di, ci, ui, oi, redir, secure) in enumerate(chain):
            dlabels, dtext = DOMAINS[di]
            spec = dict(OKHEAD)
            spec["extra"] = ["Set-Cookie: %s=%s%s" % (n, v, "; Domain=" + dtext if dtext is not None else "") for n, v in COOKIES[ci]]
            if j + 1 < len(chain):
                spec["status"] = 302
                spec["location"] = "%s://%s/" % ("wss" if chain[j + 1][6] else "ws", HOSTS[chain[j + 1][0]][1])
            specs.append(spec)
        peers = []

        def factory(world, sock, address, specs=specs):
            p = HeadPeer(world, specs[min(len(peers), len(specs) - 1)], None)
            peers.append(p)
            return p
        w = World(resolver={"*": ["10.1.1.1"]}, peer_factory=factory, fake_tls=True)
        user = USERS[chain[0][3]]
        oi = chain[0][4]
        with w:
            def call():
                ws = websocket.WebSocket()
                ws.settimeout(3)
                kw = {"cookie": user} if user else {}
                if oi is not None:
                    kw["host"] = HOSTS[oi][1]
                try:
                    ws.connect("%s://%s/" % ("wss" if chain[0][6] else "ws", HOSTS[chain[0][0]][1]), **kw)
                except Exception as e:      # noqa   (a redirect as last step of a history: too many redirects etc.)
                    if len(peers) < len(chain):
                        raise
            if threads:
                import threading
                th = threading.Thread(target=call)
                th.start()
                th.join(20)
            else:
                call()
        for j, (hi, di, ci, ui, _oi, redir, _secure) in enumerate(chain):
            hlabels, htext = HOSTS[hi]
            dlabels, dtext = DOMAINS[di]
            req = bytes(peers[j].req).split(b"\r\n")
            ck = [l for l in req if l.lower().startswith(b"cookie:")]
            sent = []
            if ck:
                sent = [x for x in ck[0].split(b":", 1)[1].strip().decode("latin-1").split("; ")]
            if len(ck) > 1:
                sent = ["<two Cookie headers>"]
            ev.append({"ev": "step", "tid": tid, "i": len(ev), "host": hlabels, "user": user, "sent": sent,
                       "domain": dlabels, "cookies": [[n, v] for n, v in COOKIES[ci]],
                       "text": {"host": htext, "domain": dtext if dtext is not None else "(none)",
                                "host_option": HOSTS[oi][1] if oi is not None else "(none)", "redirect": bool(redir and j + 1 < len(chain))}})
        k += len(chain)
    ev.append({"ev": "end", "tid": tid, "i": len(ev)})
    HS.CookieJar.jar.clear()
    return ev


def app_history(tid, steps, cookie_opt):
    """The same jar through a reconnecting WebSocketApp: every connection's response sets cookies, the connection is dropped, the
    next opening handshake (same host) must carry exactly what the jar rule says - nothing the application object remembers."""
    import websocket._handshake as HS
    from .. import appworld
    HS.CookieJar.jar.clear()
    conns = []
    for (di, ci) in steps:
        dlabels, dtext = DOMAINS[di]
        hdrs = ["Set-Cookie: %s=%s%s" % (n, v, "; Domain=" + dtext if dtext is not None else "") for n, v in COOKIES[ci]]
        conns.append({"headers": hdrs, "events": [(50, ("text", "m")), (50, ("eof",))]})
    conns.append({"events": [(50, ("close", 1000, b""))]})
    sc = {"tid": tid, "conns": conns, "run": {"reconnect": 1}, "app_kw": {"cookie": cookie_opt} if cookie_opt else {}, "horizon": 60000,
          "url_host": "x.a"}
    log, _ = appworld.run_app(sc)
    ev = [{"ev": "begin", "tid": tid, "i": 0}]
    reqs = [e for e in log if e["ev"] == "request"]
    for k, e in enumerate(reqs):
        req = bytes(e["raw"]).split(b"\r\n")
        ck = [l for l in req if l.lower().startswith(b"cookie:")]
        sent = [x for x in ck[0].split(b":", 1)[1].strip().decode("latin-1").split("; ")] if ck else []
        if len(ck) > 1:
            sent = ["<two Cookie headers>"]
        di, ci = steps[k] if k < len(steps) else (len(DOMAINS) - 1, 0)
        dlabels, dtext = DOMAINS[di]
        ev.append({"ev": "step", "tid": tid, "i": len(ev), "host": ["x", "a"], "user": cookie_opt or "", "sent": sent,
                   "domain": dlabels if k < len(steps) else [], "cookies": [[n, v] for n, v in COOKIES[ci]] if k < len(steps) else [],
                   "text": {"host": "x.a", "domain": dtext if (dtext is not None and k < len(steps)) else "(none)", "host_option": "(none)", "redirect": False}})
    ev.append({"ev": "end", "tid": tid, "i": len(ev)})
    HS.CookieJar.jar.clear()
    return ev, len(reqs)


def histories(rng, tier):
    alpha = steps_alphabet()
    out = [[s] for s in alpha]
    # store then probe: every (domain rendering, cookie list) followed by every host
    for di in range(len(DOMAINS)):
        for ci in range(len(COOKIES)):
            for hi in range(len(HOSTS)):
                out.append([(0, di, ci, 0), (hi, len(DOMAINS) - 1, 0, rng.randrange(2))])
    # overwrite / merge: two stores (all pairs of domain renderings x cookie lists) then a probe
    for d1 in range(len(DOMAINS) - 1):
        for d2 in range(len(DOMAINS) - 1):
            for c1 in range(len(COOKIES)):
                for c2 in range(len(COOKIES)):
                    if tier == "quick" and rng.random() < 0.6:
                        continue
                    out.append([(4, d1, c1, 0), (4, d2, c2, 0), (rng.choice([0, 1, 5, 6]), len(DOMAINS) - 1, 0, rng.randrange(2))])
    for _ in range(1500 if tier == "quick" else 30000):
        out.append([rng.choice(alpha) for _ in range(rng.randrange(2, 5 if tier == "quick" else 7))])
    nodom = len(DOMAINS) - 1
    # the host option (custom Host header) names another host than the URL: the jar is looked up for the URL's host
    for di in (0, 3, 4):
        for hi in range(len(HOSTS)):
            for oi in range(len(HOSTS)):
                if oi != hi and (tier == "thorough" or rng.random() < 0.5):
                    out.append([(0, di, rng.randrange(len(COOKIES)), 0), (hi, nodom, 0, rng.randrange(2), oi)])
    # cookies set by a redirect response are stored like any other: sent to the next hop and later, where covered
    for di in range(len(DOMAINS)):
        for h1 in (0, 2, 4):
            for h2 in range(len(HOSTS)):
                if tier == "quick" and rng.random() < 0.4:
                    continue
                ci = rng.randrange(len(COOKIES))
                out.append([(h1, di, ci, rng.randrange(2), None, True), (h2, nodom, 0, 0), (rng.randrange(len(HOSTS)), nodom, 0, 0)])
                out.append([(h1, di, ci, 0, None, True), (h2, rng.randrange(len(DOMAINS)), rng.randrange(len(COOKIES)), 0, None, True),
                            (rng.randrange(len(HOSTS)), nodom, 0, 0), (rng.randrange(len(HOSTS)), nodom, 0, 0)])
    # redirects that change the scheme (wss -> ws, ws -> wss, wss -> wss): the caller's cookie and the jar's cookies go to every hop
    for s1 in (False, True):
        for s2 in (False, True):
            for di in (0, 3, nodom):
                for h2 in (0, 1, 2):
                    out.append([(0, di, rng.randrange(len(COOKIES)), 1, None, True, s1), (h2, nodom, 0, 1, None, False, s2),
                                (rng.randrange(len(HOSTS)), nodom, 0, rng.randrange(2))])
    return out


def main(ctx):
    rng = random.Random(ctx.seed * 77 + 20)
    doms = '{<<"x","a">>, <<"a">>, <<"b","x","a">>}' if ctx.tier == "quick" else '{<<"x","a">>, <<"a">>, <<"b","x","a">>, <<"xx","a">>}'
    hosts = '{<<"x","a">>, <<"b","x","a">>, <<"bx","a">>, <<"xx","a">>, <<"a">>}' if ctx.tier == "quick" else \
        '{<<"x","a">>, <<"b","x","a">>, <<"bx","a">>, <<"xx","a">>, <<"a">>, <<"c","b","x","a">>, <<"a","x">>}'
    gen = {"CookieMC_a": '---- MODULE CookieMC_a ----\nEXTENDS CookieMC\nDomainsV == %s\nHostsV == %s\n====\n' % (doms, hosts)}
    invs = ["LatestWins", "OnePerName", "NoDomainNotKept", "NeverOutsideDomain", "ExactlyCovered"]
    cfg = "INIT Init\nNEXT Next\nCONSTANTS\n Domains <- DomainsV\n Hosts <- HostsV\n MaxSteps = %d\n" % 3     # histories are a tree: 120^3 (quick) / 210^3 (thorough) states
    r = tlc.run("CookieMC_a", cfg + "".join("INVARIANT %s\n" % i for i in invs), "c20_mc", gen=gen, timeout=3000)
    ctx.add_tlc(r, "CookieMC: all histories of handshakes up to the bound")
    if r.violated:
        ctx.machinery_error = "CookieMC violated %s" % r.violated
    if tlc.witnesses("CookieMC_a", cfg.replace("MaxSteps = 4", "MaxSteps = 3"), ["W_Sent"], "c20_mc_w", gen=gen):
        ctx.machinery_error = "vacuity guard: CookieMC never sends a cookie"
    hs = histories(rng, ctx.tier)
    traces = [run_history("h%d" % i, h) for i, h in enumerate(hs)]
    # the same jar from several threads: a sample of the histories with every connect() in a thread of its own
    ths = [h for h in hs if len(h) >= 2][::7 if ctx.tier == "quick" else 2]
    for i, h in enumerate(ths):
        hs.append(h)
        traces.append(run_history("t%d" % i, h, threads=True))
    # through a reconnecting WebSocketApp (host x.a): cookies without Domain, for another domain, for a covering domain
    k = 0
    for steps in ([(len(DOMAINS) - 1, 0)], [(4, 0)], [(0, 0)], [(0, 3), (len(DOMAINS) - 1, 1)], [(3, 4), (0, 1)], [(4, 2), (4, 5)]):
        for copt in ("", "u=9"):
            t, nreq = app_history("a%d" % k, steps, copt)
            k += 1
            if nreq < len(steps) + 1:
                ctx.machinery_error = "C20 app history made %d handshakes, expected %d" % (nreq, len(steps) + 1)
            hs.append([("app",) + tuple(st) for st in steps] + [("app", copt)])
            traces.append(t)
    d = tlc.scratch("c20_in")
    path = os.path.join(d, "cookie.ndjson")
    with open(path, "w") as f:
        for t in traces:
            for e in t:
                f.write(json.dumps(e) + "\n")
    r = tlc.run("TraceCookie", "SPECIFICATION TSpec\nINVARIANT OnePerName\nINVARIANT Report\n", "c20_trace",
                env={"TRACE_FILE": path}, workers=1, timeout=3000)
    ctx.add_tlc(r, "TraceCookie: real handshake histories")
    v = tlc.emitted(r, "VERDICT")[0]
    ctx.traces += len(traces)
    by = {t[0]["tid"]: (h, t) for h, t in zip(hs, traces)}
    for b in v["bad"]:
        h, t = by[b["tid"]]
        steps = [{"host": e["text"]["host"], "set_cookie_domain": e["text"]["domain"], "cookies": e["cookies"],
                  "user": e["user"], "sent": e["sent"], "host_option": e["text"]["host_option"], "redirect": e["text"]["redirect"]}
                 for e in t if e["ev"] == "step"]
        ctx.deviation(None, "history %s: step %d breaks %s: %s" % (b["tid"], b["at"], b["why"], json.dumps(steps)),
                      {"history": [list(s) for s in h], "steps": steps, "clause": b["why"], "at": b["at"]})
    for h in hs:
        ctx.case(tuple(h), nontrivial=len(h) > 1)
    ctx.sample([e for e in traces[len(traces) // 2]])
    ctx.notes["histories"] = {"n": len(hs), "accepted": v["accepted"], "rejected": len(v["bad"])}
    # negative control
    neg = json.loads(json.dumps(run_history("neg", [(0, 0, 0, 0), (2, 6, 0, 0)])))
    neg[2]["sent"] = ["k=1"]            # pretend the look-alike host bx.a got x.a's cookie
    pos = run_history("pos", [(0, 0, 0, 0), (1, 6, 0, 0)])
    path2 = os.path.join(d, "neg.ndjson")
    tlc.write_ndjson(path2, neg + pos)
    r2 = tlc.run("TraceCookie", "SPECIFICATION TSpec\nINVARIANT Report\n", "c20_neg", env={"TRACE_FILE": path2}, workers=1, timeout=300)
    v2 = tlc.emitted(r2, "VERDICT")[0]
    ctx.notes["negative_controls"] = v2["bad"]
    if [b["why"] for b in v2["bad"]] != ["C20.cookie_sent_outside_its_domain"] or v2["accepted"] != 1:
        ctx.machinery_error = "C20 negative control not rejected as expected: %s" % v2
    ctx.trusted += ["TLC 1.8", "vf/networld.py", "rendering of label sequences to host/domain text (vf/props/c20.py)"]
    ctx.assumptions += ["names/values alphanumeric; histories where one name is stored under two domains covering the "
                        "same target are accepted unjudged (which one wins is unspecified)"]


def replay(ctx, path):
    c = json.load(open(path))["case"]
    for e in run_history("replay", [tuple(s) for s in c["history"]]):
        print(e)
    return 0
