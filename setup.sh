#!/bin/sh
# Offline setup: parse every specification module with SANY, byte-compile the harness.
cd "$(dirname "$0")" || exit 1
mkdir -p build evidence
rc=0
for f in spec/*.tla; do
  m=$(basename "$f" .tla)
  case "$m" in Utf8Equiv) continue;; esac
  grep -q "IOEnv" "$f" && continue      # trace specs read a file named by the environment   # needs a generated module (table exported at check time)
  if ! java -cp /opt/veriftools/tla/tla2tools.jar:/opt/veriftools/tla/CommunityModules-deps.jar \
       -DTLA-Library=spec tla2sany.SANY "$f" > build/sany_$m.log 2>&1; then
    echo "SANY failed on $f"; tail -5 build/sany_$m.log; rc=1
  fi
done
./tools/gen_pki.sh build/pki || rc=1
/venv/bin/python -m compileall -q vf || rc=1
exit $rc
